(* C15 - row-level metrics see exactly their variant's rows; bootstrap wiring.
   read_granular: hand model model/Granular.v tied by the exact row differential on five backends.
   Bootstrap.analyze_granular: the result / argument wiring is REGENERATED from metrics/resampling.py (genP/Resampling.v).
   Named partial (facts about scipy, validated by calling scipy.stats.bootstrap directly with the same arrays, settings
   and seed): interval ordering, one-sidedness, equality with scipy.stats.bootstrap beyond the wiring. *)
From Coq Require Import ZArith String List Bool.
From TT Require Import model.Granular genP.Resampling proofs.C15_granular.
Import ListNotations.

(* one entry per distinct variant *)
Theorem C15_keys_are_the_distinct_variants cols tbl :
  map fst (read_granular cols tbl) = distinct (map fst tbl) /\ NoDup (distinct (map fst tbl)) /\
  forall v, In v (distinct (map fst tbl)) <-> In v (map fst tbl).
Proof. split; [apply granular_keys|]. split; [apply distinct_nodup | intros v; apply distinct_in]. Qed.

(* each variant gets exactly its own rows (same multiset, table order), restricted to the declared columns *)
Theorem C15_variant_rows cols tbl v rows : In (v, rows) (read_granular cols tbl) ->
  rows = map (project cols) (rows_of_variant v tbl).
Proof. exact (granular_rows cols tbl v rows). Qed.
Theorem C15_rows_belong_to_their_variant v tbl r : In r (rows_of_variant v tbl) <-> In (v, r) tbl.
Proof. exact (rows_of_variant_in v tbl r). Qed.
Theorem C15_nothing_lost_or_duplicated cols tbl :
  fold_right (fun kv acc => length (snd kv) + acc) 0 (read_granular cols tbl) = length tbl.
Proof. exact (granular_no_loss cols tbl). Qed.
Theorem C15_undeclared_columns_hidden cols r c : ~ In c cols -> project cols r c = 0%Z.
Proof. exact (project_hides_undeclared cols r c). Qed.

(* inside an Experiment the fetch holds the union of the declared columns: each metric still sees its own values *)
Theorem C15_shared_fetch_gives_same_values cols union r c :
  (forall x, In x cols -> In x union) -> In c cols -> project union r c = project cols r c.
Proof. exact (shared_read_projects cols union r c). Qed.

(* result wiring: plain statistics of the full samples; [0] -> absolute, [1] -> relative for both interval bounds *)
Theorem C15_bootstrap_result_fields :
  stacked_statistic = ["treat_stat - contr_stat"; "np.divide(treat_stat, contr_stat) - 1"]%string /\
  result_wiring =
  [("control", "self.statistic(contr, axis=0)"); ("treatment", "self.statistic(treat, axis=0)");
   ("effect_size", "stat[0]"); ("effect_size_ci_lower", "ci.low[0]"); ("effect_size_ci_upper", "ci.high[0]");
   ("rel_effect_size", "stat[1]"); ("rel_effect_size_ci_lower", "ci.low[1]"); ("rel_effect_size_ci_upper", "ci.high[1]")]%string.
Proof. split; reflexivity. Qed.
(* every setting of the metric reaches scipy.stats.bootstrap under its own name *)
Theorem C15_bootstrap_arguments :
  bootstrap_wiring =
  [("n_resamples", "self.n_resamples"); ("batch", "self.batch"); ("axis", "0"); ("confidence_level", "self.confidence_level");
   ("alternative", "self.alternative"); ("method", "self.method"); ("random_state", "self.random_state")]%string.
Proof. reflexivity. Qed.

(* the arrays handed to the statistic: the declared columns, looked up BY NAME, stacked in declared order *)
Theorem C15_columns_selected_by_name_in_declared_order :
  select_as_numpy =
  ["if isinstance(columns, str):     return data[columns].combine_chunks().to_numpy(zero_copy_only=False)";
   "return np.column_stack([data[col].combine_chunks().to_numpy(zero_copy_only=False) for col in columns])"]%string.
Proof. reflexivity. Qed.

Example C15_nonvacuous :
  read_granular ["x"%string] [(1%Z, fun _ => 5%Z); (0%Z, fun _ => 7%Z); (1%Z, fun _ => 9%Z)] <> [].
Proof. discriminate. Qed.

Print Assumptions C15_keys_are_the_distinct_variants.
Print Assumptions C15_variant_rows.
Print Assumptions C15_rows_belong_to_their_variant.
Print Assumptions C15_nothing_lost_or_duplicated.
Print Assumptions C15_undeclared_columns_hidden.
Print Assumptions C15_shared_fetch_gives_same_values.
Print Assumptions C15_bootstrap_result_fields.
Print Assumptions C15_bootstrap_arguments.
Print Assumptions C15_columns_selected_by_name_in_declared_order.
