(* C14 - Aggregates pooling and delta-method formulas are exact algebraic identities.
   Statements only; every proof is `exact <lemma>` (lemmas live in proofs/C14_pooling.v and are
   about the model REGENERATED from /repo/src/tea_tasting/aggr.py: genR/Aggr.v). *)
From Coq Require Import Reals String List Lra.
From TT Require Import lib.PreludeR lib.Stats genR.Aggr proofs.C14_pooling.
Import ListNotations.
Local Open Scope R_scope.

(* a + b is the Aggregates of the concatenated sample: count, every mean, variance, covariance *)
Theorem C14_add_count l1 l2 : (2 <= length l1)%nat -> (2 <= length l2)%nat ->
  count_ (agg_add (aggr_of l1) (aggr_of l2)) = count_ (aggr_of (l1 ++ l2)).
Proof. intros H1 H2. exact (add_count_concat l1 l2). Qed.
Theorem C14_add_mean l1 l2 c : (2 <= length l1)%nat -> (2 <= length l2)%nat ->
  mean_ (agg_add (aggr_of l1) (aggr_of l2)) c = mean_ (aggr_of (l1 ++ l2)) c.
Proof. exact (fun H1 H2 => add_mean_concat l1 l2 H1 H2 c). Qed.
Theorem C14_add_var l1 l2 c : (2 <= length l1)%nat -> (2 <= length l2)%nat ->
  var_ (agg_add (aggr_of l1) (aggr_of l2)) c = var_ (aggr_of (l1 ++ l2)) c.
Proof. exact (fun H1 H2 => add_var_concat l1 l2 H1 H2 c). Qed.
Theorem C14_add_cov l1 l2 p : (2 <= length l1)%nat -> (2 <= length l2)%nat ->
  cov_ (agg_add (aggr_of l1) (aggr_of l2)) p = cov_ (aggr_of (l1 ++ l2)) p.
Proof. exact (fun H1 H2 => add_cov_concat l1 l2 H1 H2 p). Qed.

(* commutative and associative, for arbitrary real aggregates with defined counts >= 1 *)
Theorem C14_add_comm a b na nb : count_ a = Some na -> count_ b = Some nb ->
  agg_eq (agg_add a b) (agg_add b a).
Proof. exact (add_comm_lemma a b na nb). Qed.
Theorem C14_add_assoc a b c na nb nc :
  count_ a = Some na -> count_ b = Some nb -> count_ c = Some nc -> 1 <= na -> 1 <= nb -> 1 <= nc ->
  agg_eq (agg_add (agg_add a b) c) (agg_add a (agg_add b c)).
Proof. exact (add_assoc_lemma a b c na nb nc). Qed.

(* ratio_var / ratio_cov are the sample (co)variance of the linearised ratios;
   a missing name (None) is the constant column 1 *)
Theorem C14_ratio_var_linearised l a b : (2 <= length l)%nat -> smean (ocol b) l <> 0 ->
  agg_ratio_var (aggr_of l) a b = svar (lin (ocol a) (ocol b) l) l.
Proof. exact (ratio_var_linearised_gen l a b). Qed.
Theorem C14_ratio_cov_linearised l a b c d :
  (2 <= length l)%nat -> smean (ocol b) l <> 0 -> smean (ocol d) l <> 0 ->
  agg_ratio_cov (aggr_of l) a b c d = scov (lin (ocol a) (ocol b) l) (lin (ocol c) (ocol d) l) l.
Proof. exact (ratio_cov_linearised_gen l a b c d). Qed.

(* special cases, for arbitrary aggregates *)
Theorem C14_ratio_var_none (s : aggregates R) x : agg_ratio_var s (Some x) None = var_ s x.
Proof. exact (ratio_var_none_lemma s x). Qed.
Theorem C14_ratio_cov_none_none (s : aggregates R) a b :
  agg_ratio_cov s (Some a) None (Some b) None = cov_ s (sorted_tuple a b).
Proof. exact (ratio_cov_none_none_lemma s a b). Qed.
Theorem C14_ratio_cov_self (s : aggregates R) a b :
  cov_ s (a, a) = var_ s a -> cov_ s (b, b) = var_ s b -> mean_ s b <> 0 ->
  agg_ratio_cov s (Some a) (Some b) (Some a) (Some b) = agg_ratio_var s (Some a) (Some b).
Proof. exact (ratio_cov_self_lemma s a b). Qed.

(* non-vacuity: a concrete sample meets the hypotheses *)
Example C14_nonvacuous :
  let r1 : row := fun c => if String.eqb c "x" then 1 else 3 in
  let r2 : row := fun c => if String.eqb c "x" then 2 else 5 in
  (2 <= length [r1; r2])%nat /\ smean (ocol (Some "y"%string)) [r1; r2] <> 0
  /\ cov_ (aggr_of [r1; r2]) ("x"%string, "x"%string) = var_ (aggr_of [r1; r2]) "x"%string.
Proof.
  cbv zeta. repeat split; [apply le_n|].
  unfold smean, ocol, col, cnt. cbn. lra.
Qed.

Print Assumptions C14_add_count.
Print Assumptions C14_add_mean.
Print Assumptions C14_add_var.
Print Assumptions C14_add_cov.
Print Assumptions C14_add_comm.
Print Assumptions C14_add_assoc.
Print Assumptions C14_ratio_var_linearised.
Print Assumptions C14_ratio_cov_linearised.
Print Assumptions C14_ratio_var_none.
Print Assumptions C14_ratio_cov_none_none.
Print Assumptions C14_ratio_cov_self.
