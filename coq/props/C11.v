(* C11 - SampleRatio p-values are the exact binomial / normal tests of the expected split.
   Statements about the model REGENERATED from metrics/proportion.py (genR/Proportion.v).  scipy.stats.binomtest is an
   oracle `binom n k p`.  proofs/C11_binom.v defines the two-sided exact binomial p-value (sum of the probabilities of all
   outcomes no more likely than the observed one) and proves its swap symmetry and range; that scipy's function IS that
   value (up to its relative tie tolerance) is validated numerically by tools/props/C11.py against an exact rational
   computation (named partial: C11_binom_partial). *)
From Coq Require Import Reals Bool Lra.
From TT Require Import lib.PreludeR lib.Distr lib.DistrWitness genR.Proportion proofs.C11_sample_ratio proofs.C11_binom.
Local Open Scope R_scope.

Theorem C11_counts_reported fam binom cfg cc ct r :
  sr_control (sr_analyze fam binom cfg cc ct r) = cc /\ sr_treatment (sr_analyze fam binom cfg cc ct r) = ct.
Proof. exact (sr_counts fam binom cfg cc ct r). Qed.

(* 'binom' always, 'auto' below 1000 total observations: exact binomial test; otherwise the normal approximation *)
Theorem C11_method_selection cfg n :
  sr_use_binom cfg n = match sr_method cfg with MBinom => true | MAuto => if Rlt_dec n 1000 then true else false | MNorm => false end.
Proof. exact (sr_method_selection cfg n). Qed.
Theorem C11_pvalue_source fam binom cfg cc ct r :
  sr_pvalue (sr_analyze fam binom cfg cc ct r)
  = if sr_use_binom cfg (ct + cc) then binom (ct + cc) ct (sr_share r) else sr_norm_pvalue fam cfg ct (ct + cc) (sr_share r).
Proof. exact (sr_pvalue_source fam binom cfg cc ct r). Qed.

(* the treatment share tested is r/(1+r); scalar and mapping forms agree; swapping roles inverts the ratio *)
Theorem C11_share_of_mapping rt rc : rc <> 0 -> rc + rt <> 0 -> sr_share (rt / rc) = rt / (rc + rt).
Proof. exact (sr_share_mapping rt rc). Qed.
Theorem C11_share_swapped r : r <> 0 -> 1 + r <> 0 -> sr_share (1 / r) = 1 - sr_share r.
Proof. exact (sr_share_swap r). Qed.

(* normal approximation with the optional continuity correction (half a unit towards zero, never across) *)
Theorem C11_norm_path_closed_form fam cfg k n p :
  sr_norm_pvalue fam cfg k n p
  = 2 * sf (norm_ fam 0) (Rabs (corrected (sr_correction cfg) (k - n * p) / sqrt (n * p * (1 - p)))).
Proof. exact (sr_norm_closed_form fam cfg k n p). Qed.
Theorem C11_continuity_correction c d : Rabs (corrected c d) = if c then Rmax (Rabs d - 1 / 2) 0 else Rabs d.
Proof. exact (corrected_spec c d). Qed.

(* swapping the roles of the variants while inverting the ratio leaves the p-value unchanged (normal path) *)
Theorem C11_norm_swap_invariant fam cfg k n p : sr_norm_pvalue fam cfg (n - k) n (1 - p) = sr_norm_pvalue fam cfg k n p.
Proof. exact (sr_norm_swap fam cfg k n p). Qed.
Theorem C11_norm_pvalue_range fam cfg k n p : fam_laws fam -> 0 < sr_norm_pvalue fam cfg k n p <= 1.
Proof. intros HF. exact (sr_norm_range fam HF cfg k n p). Qed.

(* exact path: the exact two-sided binomial test is symmetric under k -> n - k, p -> 1 - p, and is a probability *)
Theorem C11_exact_binomial_test_swap n k p : (k <= n)%nat -> binom_two_sided n (n - k) (1 - p) = binom_two_sided n k p.
Proof. exact (binom_two_sided_swap n k p). Qed.
Theorem C11_exact_binomial_test_range n k p : 0 <= p <= 1 -> (k <= n)%nat -> pmf n p k <= binom_two_sided n k p <= 1.
Proof. exact (binom_two_sided_range n k p). Qed.
(* hence, for any `binom` with that symmetry, swapping the roles of the variants while inverting the ratio leaves the
   exact-path p-value of SampleRatio unchanged *)
Theorem C11_binom_swap_invariant fam binom cfg cc ct r :
  (forall n k p, binom n (n - k) (1 - p) = binom n k p) -> r <> 0 -> 1 + r <> 0 -> sr_use_binom cfg (ct + cc) = true ->
  sr_pvalue (sr_analyze fam binom cfg ct cc (1 / r)) = sr_pvalue (sr_analyze fam binom cfg cc ct r).
Proof.
  intros Hsym Hr H1 Hb. rewrite !C11_pvalue_source. replace (cc + ct) with (ct + cc) by ring. rewrite Hb.
  rewrite (sr_share_swap r Hr H1). replace cc with ((ct + cc) - ct) at 2 by ring. apply Hsym.
Qed.

Example C11_nonvacuous : fam_laws logistic_family /\ sr_use_binom (mk_sr_cfg MAuto true) 999 = true
  /\ sr_use_binom (mk_sr_cfg MAuto true) 1000 = false.
Proof.
  split; [exact logistic_family_laws|]. rewrite !sr_method_selection. cbn.
  destruct (Rlt_dec 999 1000), (Rlt_dec 1000 1000); split; try reflexivity; lra.
Qed.

Print Assumptions C11_counts_reported.
Print Assumptions C11_method_selection.
Print Assumptions C11_pvalue_source.
Print Assumptions C11_share_of_mapping.
Print Assumptions C11_share_swapped.
Print Assumptions C11_norm_path_closed_form.
Print Assumptions C11_continuity_correction.
Print Assumptions C11_norm_swap_invariant.
Print Assumptions C11_norm_pvalue_range.
Print Assumptions C11_exact_binomial_test_swap.
Print Assumptions C11_exact_binomial_test_range.
Print Assumptions C11_binom_swap_invariant.
