(* C19 finding (outside the closure of props/C19.vo): n_obs="" is accepted although a str is not an
   integer or a sequence of integers (str is a collections.abc.Sequence and the empty loop checks nothing). *)
From Coq Require Import ZArith QArith String List Bool.
From TT Require Import lib.PyVal genP.Utils model.C19_spec proofs.C19_domain.
Theorem C19_n_obs_empty_string_refuted :
  exists v, is_ok (auto_check v "n_obs") = true /\ in_domain "n_obs" v = false.
Proof. exists (VStr ""). split; reflexivity. Qed.
Print Assumptions C19_n_obs_empty_string_refuted.
