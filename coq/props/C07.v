(* C07 - every Mean / RatioOfMeans result is internally coherent (interval, p-value, alternative).
   Statements about the model REGENERATED from metrics/mean.py (genR/Mean.v), for every distribution
   family satisfying the laws of lib/Distr.v (scipy's t / norm enter as oracles, never as axioms).
   Admissible statistics: counts > 1, non-negative variances, not both zero (scale > 0; scale = 0 is C18). *)
From Coq Require Import Reals String List Lra.
From TT Require Import lib.PreludeR lib.Distr lib.DistrWitness lib.ExtR genR.Aggr genR.Mean proofs.Mean_core proofs.C07_coherence.
Local Open Scope R_scope.

Section C07.
Variable fam : dist_family R.
Hypothesis HF : fam_laws fam.
Variables (cfg : rom) (cm cv cn tm tv tn : R).
Hypothesis Hcn : 1 < cn.
Hypothesis Htn : 1 < tn.
Hypothesis Hcv : 0 <= cv.
Hypothesis Htv : 0 <= tv.
Hypothesis Hpos : 0 < cv + tv.
Notation R_of c := (rom_analyze_stats fam c cm cv cn tm tv tn).

Theorem C07_fields :
  mr_control (R_of cfg) = cm /\ mr_treatment (R_of cfg) = tm /\
  mr_effect_size (R_of cfg) = mr_treatment (R_of cfg) - mr_control (R_of cfg) /\
  mr_rel_effect_size (R_of cfg) = mr_treatment (R_of cfg) / mr_control (R_of cfg) - 1.
Proof. exact (fields_lemma fam cm cv cn tm tv tn cfg). Qed.

Theorem C07_pvalue_range : 0 <= mr_pvalue (R_of cfg) <= 1.
Proof. exact (pvalue_range_lemma fam HF cm cv cn tm tv tn Hcn Htn Hcv Htv Hpos cfg). Qed.

Theorem C07_unbounded_side :
  (cfg_alternative cfg = Greater ->
     mr_effect_size_ci_upper (R_of cfg) = PInf /\ mr_rel_effect_size_ci_upper (R_of cfg) = PInf) /\
  (cfg_alternative cfg = Less ->
     mr_effect_size_ci_lower (R_of cfg) = NInf /\ mr_rel_effect_size_ci_lower (R_of cfg) = NInf).
Proof. exact (unbounded_lemma fam cm cv cn tm tv tn cfg). Qed.

(* the interval contains the point estimate: two-sided at every level; one-sided for levels >= 1/2.
   (For one-sided intervals below 1/2 the statement is FALSE of the code: props/C07_findings.v.) *)
Theorem C07_interval_contains_estimate : 0 < cfg_confidence_level cfg < 1 ->
  (cfg_alternative cfg = TwoSided \/ 1 / 2 <= cfg_confidence_level cfg) ->
  ext_le (mr_effect_size_ci_lower (R_of cfg)) (Fin (mr_effect_size (R_of cfg))) /\
  ext_le (Fin (mr_effect_size (R_of cfg))) (mr_effect_size_ci_upper (R_of cfg)).
Proof. exact (contains_lemma fam HF cm cv cn tm tv tn Hcn Htn Hcv Htv Hpos cfg). Qed.

Theorem C07_relative_interval_contains_estimate : 0 < cm * tm -> 0 < cfg_confidence_level cfg < 1 ->
  (cfg_alternative cfg = TwoSided \/ 1 / 2 <= cfg_confidence_level cfg) ->
  ext_le (mr_rel_effect_size_ci_lower (R_of cfg)) (Fin (mr_rel_effect_size (R_of cfg))) /\
  ext_le (Fin (mr_rel_effect_size (R_of cfg))) (mr_rel_effect_size_ci_upper (R_of cfg)).
Proof. exact (fun Hs => rel_contains_lemma fam HF cm cv cn tm tv tn Hcn Htn Hcv Htv Hpos Hs cfg). Qed.

Theorem C07_duality : 0 < cfg_confidence_level cfg < 1 ->
  (mr_pvalue (R_of cfg) < 1 - cfg_confidence_level cfg
   <-> excludes_zero (mr_effect_size_ci_lower (R_of cfg)) (mr_effect_size_ci_upper (R_of cfg))).
Proof. exact (duality_lemma fam HF cm cv cn tm tv tn Hcn Htn Hcv Htv Hpos cfg). Qed.

Theorem C07_one_sided_pvalues_sum_to_one :
  mr_pvalue (R_of (rom_with_alternative cfg Greater)) + mr_pvalue (R_of (rom_with_alternative cfg Less)) = 1.
Proof. exact (one_sided_sum_lemma fam HF cm cv cn tm tv tn Hcn Htn Hcv Htv Hpos cfg). Qed.

Theorem C07_two_sided_is_twice_the_smaller :
  mr_pvalue (R_of (rom_with_alternative cfg TwoSided))
  = 2 * Rmin (mr_pvalue (R_of (rom_with_alternative cfg Greater))) (mr_pvalue (R_of (rom_with_alternative cfg Less))).
Proof. exact (two_sided_lemma fam HF cm cv cn tm tv tn Hcn Htn Hcv Htv Hpos cfg). Qed.

Theorem C07_nesting c1 c2 : 0 < c1 < 1 -> 0 < c2 < 1 -> c1 <= c2 ->
  ext_le (mr_effect_size_ci_lower (R_of (rom_with_confidence_level cfg c2)))
         (mr_effect_size_ci_lower (R_of (rom_with_confidence_level cfg c1))) /\
  ext_le (mr_effect_size_ci_upper (R_of (rom_with_confidence_level cfg c1)))
         (mr_effect_size_ci_upper (R_of (rom_with_confidence_level cfg c2))).
Proof. exact (nesting_lemma fam HF cm cv cn tm tv tn Hcn Htn Hcv Htv Hpos cfg c1 c2). Qed.
End C07.

(* non-vacuity: a family satisfying the laws exists, and admissible statistics exist *)
Example C07_nonvacuous : fam_laws logistic_family /\ 1 < 2 /\ 0 <= 1 /\ 0 < 1 + 1 /\ 0 < 95 / 100 < 1.
Proof. split; [exact logistic_family_laws | lra]. Qed.

Print Assumptions C07_fields.
Print Assumptions C07_pvalue_range.
Print Assumptions C07_unbounded_side.
Print Assumptions C07_interval_contains_estimate.
Print Assumptions C07_relative_interval_contains_estimate.
Print Assumptions C07_duality.
Print Assumptions C07_one_sided_pvalues_sum_to_one.
Print Assumptions C07_two_sided_is_twice_the_smaller.
Print Assumptions C07_nesting.
