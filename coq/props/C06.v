(* C06 - CUPED/CUPAC equals regression adjustment with the pooled coefficient.
   Statements about the model regenerated from metrics/mean.py and aggr.py, applied to the exact aggregates
   of the control rows lc and treatment rows lt (p = lc ++ lt is the pooled sample). *)
From Coq Require Import Reals String List Lra.
From TT Require Import lib.PreludeR lib.Stats lib.Distr genR.Aggr genR.Mean
  proofs.C14_pooling proofs.Mean_core proofs.Mean_aggr proofs.C06_cuped.
Import ListNotations.
Local Open Scope R_scope.

(* The test is applied to  adj = Y - theta * (X - xbar):  Y, X the delta-method linearisations of metric and
   covariate in each sample's own means, theta = cov(Y,X)/var(X) computed ONCE on the pooled sample (0 if that
   variance is 0), xbar the pooled covariate level. *)
Theorem C06_cuped_is_regression fam cfg lc lt :
  dens_ok cfg lc -> dens_ok cfg lt -> dens_ok cfg (lc ++ lt) ->
  rom_analyze_aggregates fam cfg (aggr_of lc) (aggr_of lt)
  = rom_analyze_stats fam cfg
      (smean (adj cfg (lc ++ lt) lc) lc) (svar (adj cfg (lc ++ lt) lc) lc) (cnt lc)
      (smean (adj cfg (lc ++ lt) lt) lt) (svar (adj cfg (lc ++ lt) lt) lt) (cnt lt).
Proof. exact (cuped_regression_lemma fam cfg lc lt). Qed.

(* for Mean(value v, covariate c): adj r = r v - theta (r c - mean_pooled c), theta = cov(v,c)/var(c) pooled *)
Theorem C06_mean_adjusted_observation cfg v c p l r :
  cfg_numer cfg = v -> cfg_denom cfg = None -> cfg_numer_covariate cfg = Some c -> cfg_denom_covariate cfg = None ->
  cnt l <> 0 -> cnt p <> 0 ->
  adj cfg p l r = r v - theta_of cfg p * (r c - smean (col c) p).
Proof. exact (mean_adj_shape cfg v c p l r). Qed.
Theorem C06_mean_pooled_coefficient cfg v c p :
  cfg_numer cfg = v -> cfg_denom cfg = None -> cfg_numer_covariate cfg = Some c -> cfg_denom_covariate cfg = None ->
  cnt p <> 0 ->
  theta_of cfg p = if Req_EM_T (svar (col c) p) 0 then 0 else scov (col v) (col c) p / svar (col c) p.
Proof. exact (mean_theta_shape cfg v c p). Qed.

(* the observation-weighted average of the adjusted means is the unadjusted pooled mean *)
Theorem C06_adjusted_means_average_to_pooled_mean cfg lc lt :
  dens_ok cfg lc -> dens_ok cfg lt -> cfg_denom cfg = None -> cfg_denom_covariate cfg = None ->
  (cnt lc * smean (adj cfg (lc ++ lt) lc) lc + cnt lt * smean (adj cfg (lc ++ lt) lt) lt) / (cnt lc + cnt lt)
  = smean (col (cfg_numer cfg)) (lc ++ lt).
Proof. exact (cuped_mean_preserved_lemma cfg lc lt). Qed.

(* replacing the covariate X by a*X+b (a <> 0) changes nothing (Mean) *)
Theorem C06_mean_covariate_affine_invariant fam v c c' alt cl ev ut alpha ratio power (lc lt : list row) a b :
  a <> 0 -> (2 <= length lc)%nat -> (2 <= length lt)%nat ->
  (forall r, In r (lc ++ lt) -> r c' = a * r c + b) ->
  rom_analyze_aggregates fam (mean_cfg v (Some c') alt cl ev ut alpha ratio power) (aggr_of lc) (aggr_of lt)
  = rom_analyze_aggregates fam (mean_cfg v (Some c) alt cl ev ut alpha ratio power) (aggr_of lc) (aggr_of lt).
Proof. exact (mean_affine_invariant_lemma fam v c c' alt cl ev ut alpha ratio power lc lt a b). Qed.

(* every metric: any change of covariate columns that maps the linearised covariate affinely (a <> 0) - in
   particular rescaling the covariate's numerator or denominator column - changes nothing *)
Theorem C06_covariate_affine_invariant fam cfg cfg' lc lt a b :
  a <> 0 -> cfg_numer cfg' = cfg_numer cfg -> cfg_denom cfg' = cfg_denom cfg ->
  cfg_alternative cfg' = cfg_alternative cfg -> cfg_confidence_level cfg' = cfg_confidence_level cfg ->
  cfg_equal_var cfg' = cfg_equal_var cfg -> cfg_use_t cfg' = cfg_use_t cfg ->
  dens_ok cfg lc -> dens_ok cfg' lc -> dens_ok cfg lt -> dens_ok cfg' lt ->
  dens_ok cfg (lc ++ lt) -> dens_ok cfg' (lc ++ lt) ->
  (forall r, In r lc -> linX cfg' lc r = a * linX cfg lc r + b) ->
  (forall r, In r lt -> linX cfg' lt r = a * linX cfg lt r + b) ->
  (forall r, In r (lc ++ lt) -> linX cfg' (lc ++ lt) r = a * linX cfg (lc ++ lt) r + b) ->
  xbar_of cfg' (lc ++ lt) = a * xbar_of cfg (lc ++ lt) + b ->
  rom_analyze_aggregates fam cfg' (aggr_of lc) (aggr_of lt) = rom_analyze_aggregates fam cfg (aggr_of lc) (aggr_of lt).
Proof. exact (covariate_affine_invariant_lemma fam cfg cfg' lc lt a b). Qed.
Theorem C06_rescaled_numerator_covariate_is_affine f f' g k l :
  (forall r, In r l -> f' r = k * f r) -> forall r, In r l -> lin f' g l r = k * lin f g l r + 0.
Proof. exact (lin_scale_numer f f' g k l). Qed.
Theorem C06_rescaled_denominator_covariate_is_affine f g g' k l : k <> 0 -> smean g l <> 0 ->
  (forall r, In r l -> g' r = k * g r) -> forall r, In r l -> lin f g' l r = / k * lin f g l r + 0.
Proof. exact (lin_scale_denom f g g' k l). Qed.

(* a covariate with zero variance leaves the unadjusted result *)
Theorem C06_zero_variance_covariate_is_noop fam cfg lc lt :
  dens_ok cfg lc -> dens_ok cfg lt -> dens_ok cfg (lc ++ lt) ->
  svar (linX cfg (lc ++ lt)) (lc ++ lt) = 0 ->
  rom_analyze_aggregates fam cfg (aggr_of lc) (aggr_of lt)
  = rom_analyze_stats fam cfg (smean (linY cfg lc) lc) (svar (linY cfg lc) lc) (cnt lc)
                              (smean (linY cfg lt) lt) (svar (linY cfg lt) lt) (cnt lt).
Proof. exact (cuped_zero_variance_lemma fam cfg lc lt). Qed.

Example C06_nonvacuous :
  let r1 : row := fun c => if String.eqb c "x" then 1 else 2 in
  let r2 : row := fun c => if String.eqb c "x" then 3 else 5 in
  dens_ok (mean_cfg "x" (Some "c"%string) TwoSided (95 / 100) false true (5 / 100) 1 (8 / 10)) [r1; r2].
Proof. cbv zeta. apply dens_ok_no_denoms; [reflexivity | reflexivity | apply le_n]. Qed.

Print Assumptions C06_cuped_is_regression.
Print Assumptions C06_mean_adjusted_observation.
Print Assumptions C06_mean_pooled_coefficient.
Print Assumptions C06_adjusted_means_average_to_pooled_mean.
Print Assumptions C06_mean_covariate_affine_invariant.
Print Assumptions C06_covariate_affine_invariant.
Print Assumptions C06_rescaled_numerator_covariate_is_affine.
Print Assumptions C06_rescaled_denominator_covariate_is_affine.
Print Assumptions C06_zero_variance_covariate_is_noop.
