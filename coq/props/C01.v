(* C01 - per-variant aggregates equal the exact sample statistics on every backend.
   What is proved here, for ALL requests, tables and groups: the DENOTATION (lib/PlanSem.v: with_columns / window mean
   over the partition / GROUP BY aggregation as a dataframe or SQL engine evaluates them) of each of the three query plans
   built by aggr.py is one row per group carrying the exact count, means, unbiased variances and covariances of that
   group's rows (proofs/C01_denote.v), under the naming hypotheses the proof forces (data columns are not named like
   aliases; covariance aliases do not collide - the known finding); the plans are two-pass (only deviations from the
   group mean are multiplied, independent of any common offset); group statistics do not depend on other groups' rows.
   The plans themselves (model/ReadPlan.plan_of_spec) are tied to the REAL builders by plan capture (tools/plans.py,
   equality checked by vm_compute).
   Named partial - validated on the five executable backends against exact rationals, not proved:
     C01_engine_partial          : that each engine evaluates a plan as lib/PlanSem.v reads it;
     C01_error_bound_partial     : the floating-point error bound (small multiple of eps x conditioning). *)
From Coq Require Import Reals String List Lra.
From TT Require Import lib.Stats lib.Plan lib.PlanSem model.ReadPlan proofs.C01_plans proofs.C01_denote proofs.C01_eqc.
Import ListNotations.
Local Open Scope R_scope.

(* ---------- the denotation of every builder's plan ---------- *)
Section Denotation.
Variables (q : request) (g : option string) (tbl : table).
Hypothesis fresh : forall c, data_col q g c ->
  (forall x, String.eqb c (a_demean x) = false) /\ (forall x, String.eqb c (a_var x) = false) /\
  (forall p, String.eqb c (a_cov p) = false) /\ (forall x, String.eqb c (a_mean x) = false) /\ String.eqb c a_count = false /\
  (forall x, String.eqb c (a_gmean x) = false).
Hypothesis cov_alias_inj : forall p p', In p (r_cov q) -> In p' (r_cov q) -> a_cov p = a_cov p' -> p = p'.
Hypothesis var_in_covar : forall c, In c (r_var q) -> In c (r_covar q).
Hypothesis cov_in_covar : forall p, In p (r_cov q) -> In (fst p) (r_covar q) /\ In (snd p) (r_covar q).

(* does the plan of builder b output the count (narwhals always adds it when it needs it for the unbiasing) *)
Definition count_present (b : builder) : bool :=
  match b with Narwhals => r_has_count q || has_covar q | _ => r_has_count q end.

Theorem C01_plan_denotes_exact_statistics b :
  exists F, run_plan (plan_of_spec b q g) tbl = map F (reps g tbl) /\
            forall rep, In rep (reps g tbl) -> (2 <= length (part g rep tbl))%nat ->
                        exact_for_gen q g tbl (count_present b) rep (F rep).
Proof.
  destruct b; cbn [plan_of_spec count_present].
  - destruct (Bool.bool_dec (has_covar q) true) as [Hc|Hc]; [|apply Bool.not_true_is_false in Hc].
    + edestruct (nw_denotes_covar q g tbl) as [F [H1 H2]]; try eassumption.
      exists F. split; [exact H1|]. intros rep Hr Hl. apply H2; assumption.
    + edestruct (nw_denotes_plain q g tbl) as [F [H1 H2]]; try eassumption.
      exists F. split; [exact H1|]. intros rep Hr _. apply H2. exact Hr.
  - edestruct (ibis_native_denotes q g tbl) as [F [H1 H2]]; try eassumption.
    exists F. split; [exact H1|]. intros rep Hr _. apply H2. exact Hr.
  - edestruct (ibis_fallback_denotes q g tbl) as [F [H1 H2]]; try eassumption.
    exists F. split; [exact H1|]. intros rep Hr _. apply H2. exact Hr.
Qed.
End Denotation.

(* one result row per variant: every row's variant is represented, representatives are in pairwise different groups *)
Theorem C01_one_row_per_variant g tbl :
  (forall r, In r tbl -> exists rep, In rep (reps g tbl) /\ same_group g rep r = true) /\
  ForallOrdPairs (fun a b => same_group g a b = false) (reps g tbl).
Proof. split; [intros r; apply reps_cover | apply reps_distinct]. Qed.

(* narwhals plan:  mean(demean a * demean b) / (1 - 1/_count)  over the group *)
Theorem C01_narwhals_plan_is_unbiased_cov f g l : (2 <= length l)%nat ->
  smean (fun r => demean f l r * demean g l r) l / (1 - 1 / cnt l) = scov f g l.
Proof. exact (narwhals_cov_identity f g l). Qed.
Theorem C01_narwhals_plan_is_unbiased_var f l : (2 <= length l)%nat ->
  smean (fun r => demean f l r * demean f l r) l / (1 - 1 / cnt l) = svar f l.
Proof. exact (narwhals_var_identity f l). Qed.

(* ibis fallback plan:  sum(demean a * demean b) / (count - 1)  over the group *)
Theorem C01_ibis_fallback_plan_is_unbiased_cov f g l :
  rsum (fun r => demean f l r * demean g l r) l / (cnt l - 1) = scov f g l.
Proof. exact (fallback_cov_identity f g l). Qed.

(* the (n-1) normalisation matters: the population form differs whenever the variance is non-zero *)
Theorem C01_population_variance_would_differ f l : (2 <= length l)%nat -> svar f l <> 0 ->
  smean (fun r => demean f l r * demean f l r) l <> svar f l.
Proof. exact (population_variance_differs f l). Qed.

(* two-pass shape: what is squared / multiplied is free of any common offset of the data *)
Theorem C01_demeaned_values_are_offset_free f K l : cnt l <> 0 ->
  forall r, demean (fun r' => f r' + K) l r = demean f l r.
Proof. exact (demean_offset_free f K l). Qed.
Theorem C01_statistics_are_offset_free f g K L l : cnt l <> 0 -> cnt l - 1 <> 0 ->
  scov (fun r => f r + K) (fun r => g r + L) l = scov f g l.
Proof. exact (cov_offset_free f g K L l). Qed.

(* per-variant: rows of other variants do not matter *)
Theorem C01_other_variants_irrelevant key tbl extra : (forall r, In r extra -> key r = false) ->
  rows_of key (tbl ++ extra) = rows_of key tbl.
Proof. exact (other_groups_irrelevant key tbl extra). Qed.

Example C01_nonvacuous :
  let r1 : row := fun _ => 1 in let r2 : row := fun _ => 4 in
  (2 <= length [r1; r2])%nat /\ svar (col "x") [r1; r2] <> 0.
Proof. cbv zeta. split; [apply le_n|]. unfold svar, scov, smean, cnt, col. cbn. lra. Qed.

Print Assumptions C01_narwhals_plan_is_unbiased_cov.
Print Assumptions C01_narwhals_plan_is_unbiased_var.
Print Assumptions C01_ibis_fallback_plan_is_unbiased_cov.
Print Assumptions C01_population_variance_would_differ.
Print Assumptions C01_demeaned_values_are_offset_free.
Print Assumptions C01_statistics_are_offset_free.
Print Assumptions C01_other_variants_irrelevant.
Print Assumptions C01_plan_denotes_exact_statistics.
Print Assumptions C01_one_row_per_variant.

(* the tie: a captured plan is compared with model/ReadPlan.plan_of_spec up to the order of the operands of + and *
   (lib/Plan.plan_eqc, evaluated by vm_compute on every run); plans that compare equal denote the same transformation
   of every table, so the theorems above hold for the captured plan itself *)
Theorem C01_plan_comparison_is_sound p q tbl : plan_eqc p q = true -> run_plan p tbl = run_plan q tbl.
Proof. exact (plan_eqc_sound p q tbl). Qed.
Print Assumptions C01_plan_comparison_is_sound.
