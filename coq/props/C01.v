(* C01 - per-variant aggregates equal the exact sample statistics on every backend.
   What is proved here, for ALL tables and groups: the arithmetic of each of the three query plans built by aggr.py
   yields the unbiased sample (co)variance of the group's rows; the plans are two-pass (only deviations from the group
   mean are multiplied, and those are independent of any common offset of the data); group statistics do not depend on
   the rows of other groups.  The plans themselves (model/ReadPlan.plan_of_spec) are tied to the REAL builders by plan
   capture (tools/plans.py, equality checked by vm_compute).
   Named partial - validated on the five executable backends against exact rationals, not proved:
     C01_plan_denotation_partial : the engines evaluate a plan as the plan language reads it (window mean over the
                                   partition, GROUP BY, one output row per variant);
     C01_error_bound_partial     : the floating-point error bound (small multiple of eps x conditioning). *)
From Coq Require Import Reals String List Lra.
From TT Require Import lib.Stats proofs.C01_plans.
Import ListNotations.
Local Open Scope R_scope.

(* narwhals plan:  mean(demean a * demean b) / (1 - 1/_count)  over the group *)
Theorem C01_narwhals_plan_is_unbiased_cov f g l : (2 <= length l)%nat ->
  smean (fun r => demean f l r * demean g l r) l / (1 - 1 / cnt l) = scov f g l.
Proof. exact (narwhals_cov_identity f g l). Qed.
Theorem C01_narwhals_plan_is_unbiased_var f l : (2 <= length l)%nat ->
  smean (fun r => demean f l r * demean f l r) l / (1 - 1 / cnt l) = svar f l.
Proof. exact (narwhals_var_identity f l). Qed.

(* ibis fallback plan:  sum(demean a * demean b) / (count - 1)  over the group *)
Theorem C01_ibis_fallback_plan_is_unbiased_cov f g l :
  rsum (fun r => demean f l r * demean g l r) l / (cnt l - 1) = scov f g l.
Proof. exact (fallback_cov_identity f g l). Qed.

(* the (n-1) normalisation matters: the population form differs whenever the variance is non-zero *)
Theorem C01_population_variance_would_differ f l : (2 <= length l)%nat -> svar f l <> 0 ->
  smean (fun r => demean f l r * demean f l r) l <> svar f l.
Proof. exact (population_variance_differs f l). Qed.

(* two-pass shape: what is squared / multiplied is free of any common offset of the data *)
Theorem C01_demeaned_values_are_offset_free f K l : cnt l <> 0 ->
  forall r, demean (fun r' => f r' + K) l r = demean f l r.
Proof. exact (demean_offset_free f K l). Qed.
Theorem C01_statistics_are_offset_free f g K L l : cnt l <> 0 -> cnt l - 1 <> 0 ->
  scov (fun r => f r + K) (fun r => g r + L) l = scov f g l.
Proof. exact (cov_offset_free f g K L l). Qed.

(* per-variant: rows of other variants do not matter *)
Theorem C01_other_variants_irrelevant key tbl extra : (forall r, In r extra -> key r = false) ->
  rows_of key (tbl ++ extra) = rows_of key tbl.
Proof. exact (other_groups_irrelevant key tbl extra). Qed.

Example C01_nonvacuous :
  let r1 : row := fun _ => 1 in let r2 : row := fun _ => 4 in
  (2 <= length [r1; r2])%nat /\ svar (col "x") [r1; r2] <> 0.
Proof. cbv zeta. split; [apply le_n|]. unfold svar, scov, smean, cnt, col. cbn. lra. Qed.

Print Assumptions C01_narwhals_plan_is_unbiased_cov.
Print Assumptions C01_narwhals_plan_is_unbiased_var.
Print Assumptions C01_ibis_fallback_plan_is_unbiased_cov.
Print Assumptions C01_population_variance_would_differ.
Print Assumptions C01_demeaned_values_are_offset_free.
Print Assumptions C01_statistics_are_offset_free.
Print Assumptions C01_other_variants_irrelevant.
