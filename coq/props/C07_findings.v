(* C07 finding (NOT in the closure of props/C07.vo): for a one-sided alternative and a confidence level
   below 1/2 the reported interval EXCLUDES its own point estimate.  Witness evaluated on the regenerated
   model; the same input is replayed on the real code by tools/props/C07.py (known_findings.json). *)
From Coq Require Import Reals String List Lra.
From TT Require Import lib.PreludeR lib.Distr lib.DistrWitness lib.ExtR genR.Aggr genR.Mean proofs.Mean_core.
Local Open Scope R_scope.

Definition cfg_low : rom :=
  mk_rom "x" None None None Greater (3 / 10) false false (5 / 100) 1 (8 / 10).

Theorem C07_one_sided_low_level_refuted :
  exists fam cfg cm cv cn tm tv tn,
    fam_laws fam /\ 1 < cn /\ 1 < tn /\ 0 <= cv /\ 0 <= tv /\ 0 < cv + tv /\
    0 < cfg_confidence_level cfg < 1 /\ cfg_alternative cfg = Greater /\
    let r := rom_analyze_stats fam cfg cm cv cn tm tv tn in
    ~ ext_le (mr_effect_size_ci_lower r) (Fin (mr_effect_size r)).
Proof.
  exists logistic_family, cfg_low, 1, 1, 2, 1, 1, 2.
  split; [exact logistic_family_laws|].
  do 5 (split; [cbn; lra|]). split; [cbn; split; lra|]. split; [reflexivity|].
  cbv zeta. rewrite (analyze_stats_greater logistic_family cfg_low 1 1 2 1 1 2 eq_refl).
  cbn [mr_effect_size_ci_lower mr_effect_size ext_le cfg_low cfg_equal_var cfg_use_t cfg_confidence_level se_of null_of
       logistic_family norm_ logistic isf].
  replace (1 / 2 + 1 / 2) with 1 by lra. rewrite (Rmax_left 1 0) by lra. rewrite sqrt_1.
  unfold lppf. replace ((1 - 3 / 10) / (1 - (1 - 3 / 10))) with (7 / 3) by lra.
  assert (0 < ln (7 / 3)).
  { rewrite <- ln_1. apply ln_increasing; lra. }
  lra.
Qed.
Print Assumptions C07_one_sided_low_level_refuted.
