(* C12 - an experiment is the sum of its metrics over the documented variant pairs.
   pairs_control / pairs_all / guard_raises are REGENERATED from Experiment.analyze (genP/ExperimentPairs.v);
   rom_analyze_aggregates is regenerated from metrics/mean.py.  Dispatch and "entry = stand-alone metric" for
   user-defined metrics and the other built-ins are tied by the differential of tools/props/C12.py. *)
From Coq Require Import ZArith Reals String List Bool.
From TT Require Import model.Experiment proofs.C12_merged.
From TT Require Import lib.PreludeR genP.ExperimentPairs genR.Aggr genR.Mean model.Experiment
  proofs.C03_C12_experiment proofs.C12_agree.
Import ListNotations.

(* with a control: exactly the pairs (control, t) for every other variant t, in the order of the sorted variants *)
Theorem C12_pairs_with_control c vs t x :
  In (x, t) (pairs_control c vs) <-> x = c /\ In t vs /\ t <> c.
Proof. exact (pairs_control_in c vs t x). Qed.
Theorem C12_pairs_with_control_order c vs :
  map snd (pairs_control c vs) = filter (fun t => negb (Z.eqb t c)) vs.
Proof. exact (pairs_control_order c vs). Qed.
Theorem C12_pairs_with_control_no_duplicates c vs : NoDup vs -> NoDup (pairs_control c vs).
Proof. exact (pairs_control_nodup c vs). Qed.

(* without a control: exactly the pairs with the smaller id as control *)
Theorem C12_all_pairs vs c t : In (c, t) (pairs_all vs) <-> In c vs /\ In t vs /\ (c < t)%Z.
Proof. exact (pairs_all_in vs c t). Qed.

(* raises instead of guessing: all_variants is False and there is not exactly one pair *)
Theorem C12_guard ps all_variants :
  guard_raises ps all_variants = true <-> all_variants = false /\ length ps <> 1%nat.
Proof. exact (guard_iff ps all_variants). Qed.

(* a Mean / RatioOfMeans entry depends only on the statistics the metric declared: two per-variant aggregates that
   agree on them (count, mean and variance of the metric's own columns, covariance of every pair of DIFFERENT own
   columns - exactly what aggr_cols requests) give the same result - whatever other metrics added to the merged query and
   whichever other variants are present.  The metric's columns are pairwise different (with a repeated column the
   code raises KeyError for every dataset, alone or in an experiment) *)
Theorem C12_entry_depends_only_on_declared_statistics fam cfg c c' t t' :
  NoDup (cfg_cols cfg) -> agree (cfg_cols cfg) c c' -> agree (cfg_cols cfg) t t' ->
  rom_analyze_aggregates fam cfg c t = rom_analyze_aggregates fam cfg c' t'.
Proof. exact (analysis_reads_only_declared fam cfg c c' t t'). Qed.

Example C12_nonvacuous : pairs_all [0; 1; 2]%Z = [(0, 1); (0, 2); (1, 2)]%Z /\ pairs_control 1 [0; 1; 2]%Z = [(1, 0); (1, 2)]%Z
  /\ guard_raises (pairs_all [0; 1; 2]%Z) false = true.
Proof. repeat split. Qed.

(* user-defined aggregated metrics receive at least the statistics they declared: the merged request of the experiment
   (AggrCols.__or__ folded over the metrics) covers each metric's own request - count, mean and variance columns, and the
   covariance pairs in the sorted order in which they are looked up *)
Theorem C12_merged_request_covers_each_metric ms s : In (MAggr s) ms -> covers (merged_spec ms) s.
Proof. exact (merged_spec_covers ms s). Qed.
(* power analysis: dispatch is by the POWER class of each metric (PowerBaseAggregated / other PowerBase / none), whatever
   its analysis class; the ungrouped request covers what every aggregated power metric declared, the result has exactly
   one entry per metric that has a power analysis, in the order of the definition *)
Theorem C12_power_request_covers_each_metric ps s : In (PwAggr s) ps -> covers (power_merged_spec ps) s.
Proof. exact (power_merged_spec_covers ps s). Qed.
Theorem C12_power_result_entries ps j :
  In j (power_entries 0 ps) <-> exists p, nth_error ps j = Some p /\ p <> PwNone.
Proof. exact (power_entries_spec0 ps j). Qed.
Theorem C12_power_result_order ps a b l1 l2 : power_entries 0 ps = l1 ++ a :: b :: l2 -> a < b.
Proof. exact (power_entries_increasing ps 0 a b l1 l2). Qed.

Print Assumptions C12_pairs_with_control.
Print Assumptions C12_pairs_with_control_order.
Print Assumptions C12_pairs_with_control_no_duplicates.
Print Assumptions C12_all_pairs.
Print Assumptions C12_guard.
Print Assumptions C12_entry_depends_only_on_declared_statistics.
Print Assumptions C12_merged_request_covers_each_metric.
Print Assumptions C12_power_request_covers_each_metric.
Print Assumptions C12_power_result_entries.
Print Assumptions C12_power_result_order.
