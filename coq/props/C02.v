(* C02 - results do not depend on backend, row order, chunking or unrelated columns.
   Proved for all tables: the exact aggregates (what C01 shows every plan computes) are invariant under permutations
   of the rows and depend only on the columns a metric uses; since the analysis of C04-C06 is a function of these
   aggregates, whole results are invariant.  Chunking and each engine's dtype conversion are invisible in a
   list-of-rows model: they are covered only by the cross-backend differential (C02_chunking_partial). *)
From Coq Require Import Reals String List Lra Permutation.
From TT Require Import lib.PreludeR lib.Stats lib.Plan lib.PlanSem model.ReadPlan genR.Aggr genR.Mean proofs.C14_pooling proofs.C12_agree
  proofs.C02_invariance proofs.C01_denote proofs.C02_plan_perm proofs.C02_chunks.
Import ListNotations.
Local Open Scope R_scope.

(* any row order gives the same statistics *)
Theorem C02_row_order_irrelevant f g l l' : Permutation l l' ->
  cnt l = cnt l' /\ smean f l = smean f l' /\ scov f g l = scov f g l'.
Proof. intros H. repeat split; [apply cnt_perm | apply smean_perm | apply scov_perm]; exact H. Qed.

(* columns a metric does not use are irrelevant: any transformation h of the rows that keeps the used columns
   (dropping, adding or changing every other column) gives the same statistics *)
Theorem C02_unrelated_columns_irrelevant (cols : list string) (h : row -> row) l a b :
  In a cols -> In b cols -> (forall r c, In c cols -> h r c = r c) ->
  cnt (map h l) = cnt l /\ smean (col a) (map h l) = smean (col a) l /\
  scov (col a) (col b) (map h l) = scov (col a) (col b) l.
Proof. exact (stats_ignore_other_columns cols h l a b). Qed.

(* the analysis is a function of the declared statistics only (C12), so equal statistics give equal results *)
Theorem C02_results_depend_on_statistics_only fam cfg c c' t t' :
  NoDup (cfg_cols cfg) -> agree (cfg_cols cfg) c c' -> agree (cfg_cols cfg) t t' ->
  rom_analyze_aggregates fam cfg c t = rom_analyze_aggregates fam cfg c' t'.
Proof. exact (analysis_reads_only_declared fam cfg c c' t t'). Qed.

Example C02_nonvacuous : Permutation [(fun _ : string => 1); (fun _ => 2)] [(fun _ : string => 2); (fun _ => 1)].
Proof. apply perm_swap. Qed.

(* at the level of the query plans: evaluating any builder's plan on a table and on any reordering of its rows gives, for
   every variant, result rows with the same count, means, variances and covariances (with C01: for every builder, so the
   three builders - and hence the backends they serve - agree with one another as well) *)
Theorem C02_plan_result_independent_of_row_order q g tbl tbl' wc rep rep' o o' : Permutation tbl tbl' ->
  same_group g rep rep' = true -> exact_for_gen q g tbl wc rep o -> exact_for_gen q g tbl' wc rep' o' ->
  (wc = true -> o a_count = o' a_count) /\
  (forall c, In c (r_mean q) -> o (a_mean c) = o' (a_mean c)) /\
  (forall c, In c (r_var q) -> o (a_var c) = o' (a_var c)) /\
  (forall p, In p (r_cov q) -> o (a_cov p) = o' (a_cov p)).
Proof. intros Hp. exact (exact_rows_agree q g tbl tbl' Hp wc rep rep' o o'). Qed.

Print Assumptions C02_row_order_irrelevant.
Print Assumptions C02_unrelated_columns_irrelevant.
Print Assumptions C02_results_depend_on_statistics_only.
Print Assumptions C02_plan_result_independent_of_row_order.

(* chunk layout (a chunked table denotes the concatenation of its chunks): the same rows cut into chunks anywhere, and
   chunks handed over in any order, give the same statistics.  An engine misreading a chunked table is outside a
   list-of-rows model: C02_chunking_partial stays with the differential. *)
Theorem C02_chunks_in_any_order f g (chs chs' : list (list row)) : Permutation chs chs' ->
  cnt (concat chs) = cnt (concat chs') /\ smean f (concat chs) = smean f (concat chs') /\
  scov f g (concat chs) = scov f g (concat chs').
Proof. exact (chunks_in_any_order f g chs chs'). Qed.
Theorem C02_cutting_a_table_anywhere (l : list row) k : concat [firstn k l; skipn k l] = l.
Proof. exact (cut_concat l k). Qed.
Print Assumptions C02_chunks_in_any_order.
Print Assumptions C02_cutting_a_table_anywhere.
