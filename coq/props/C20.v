(* C20 - synthetic datasets are reproducible and internally consistent.
   (a) genR/Datasets.v is REGENERATED from datasets.py: the parameter expressions handed to every rng.* call of _make_data
       (users and sessions data) and the parameter domain of _check_params.  Theorems: on the whole documented domain every
       distribution parameter is valid in both variants, the treatment odds are exactly `ratio`, and with the textbook
       means of the distributions (Poisson lam, Beta a/(a+b), Binomial n p, LogNormal exp(mu + sigma^2/2); trusted, with
       the independence of the draws) the requested uplifts are exactly the expected relative differences.
   (b) model/Datasets.v (hand model of the table assembly as a function of the Generator's return values; tied by
       replaying recorded draws, tools/props/C20.py): value invariants for every draw the Generator can return, the
       users / sessions correspondence, covariates constant within a user.
   Not modelled (checked on the real generators by the oracle only): that the numpy Generator is a deterministic function
   of the seed, that the three return types hold the same arrays, the dtypes. *)
From Coq Require Import Reals ZArith QArith Qabs List Bool.
From TT Require Import lib.PreludeR genR.Datasets model.Datasets proofs.C20_calibration proofs.C20_datasets.
Import ListNotations.

Section Params.
Local Open Scope R_scope.
Variables ratio su ou ru avs aops arpo : R.
Hypothesis Hvalid : ds_valid ratio su ou ru avs aops arpo = true.
Notation P f v := (f ratio su ou ru avs aops arpo v).

Theorem C20_distribution_parameters_valid v : (v = 0 \/ v = 1) ->
  0 < P ds_variant_p v < 1 /\ 0 < P ds_sessions_lam v /\ 0 < P ds_ops_a v /\ 0 < P ds_ops_b v /\
  0 < arpo * ((1 + ru * v) / (1 + ou * v)) /\ 0 < P ds_rpo_sigma v /\ 0 < P dsx_rpo_sigma v.
Proof.
  intros Hv. split; [eapply variant_p_valid; eassumption|]. split; [eapply sessions_lam_valid; eassumption|].
  destruct (beta_params_valid ratio su ou ru avs aops arpo Hvalid v Hv) as [Ha Hb]. split; [exact Ha|]. split; [exact Hb|].
  split; [eapply rpo_arg_pos; eassumption|]. split; [apply rpo_sigma_valid | eapply rpo_sigma_sessions_valid; eassumption].
Qed.

Theorem C20_treatment_share v : P ds_variant_p v / (1 - P ds_variant_p v) = ratio.
Proof. apply treatment_odds; assumption. Qed.

Theorem C20_uplifts_are_expected_relative_differences :
  E_sessions ratio su ou ru avs aops arpo 1 / E_sessions ratio su ou ru avs aops arpo 0 = 1 + su /\
  E_orders ratio su ou ru avs aops arpo 1 / E_orders ratio su ou ru avs aops arpo 0 = 1 + ou /\
  E_revenue ratio su ou ru avs aops arpo 1 / E_revenue ratio su ou ru avs aops arpo 0 = 1 + ru.
Proof. apply uplifts_calibrated; assumption. Qed.

Theorem C20_control_has_requested_averages :
  E_sessions ratio su ou ru avs aops arpo 0 = avs /\
  E_orders ratio su ou ru avs aops arpo 0 / E_sessions ratio su ou ru avs aops arpo 0 = aops /\
  E_revenue ratio su ou ru avs aops arpo 0 / E_orders ratio su ou ru avs aops arpo 0 = arpo.
Proof. apply control_averages; assumption. Qed.

Theorem C20_sessions_data_same_expectations v : (v = 0 \/ v = 1) ->
  P dsx_variant_p v = P ds_variant_p v /\ P dsx_sessions_lam v = P ds_sessions_lam v /\
  E_sessions ratio su ou ru avs aops arpo v * Ex_orders_row ratio su ou ru avs aops arpo v = E_orders ratio su ou ru avs aops arpo v /\
  Ex_rpo ratio su ou ru avs aops arpo v = E_revenue_per_order ratio su ou ru avs aops arpo v.
Proof. apply sessions_data_same_means; assumption. Qed.

(* covariate draws: valid parameters for every value the earlier draws of the same row can take *)
Theorem C20_covariate_parameters_valid v sessions p rpo : (v = 0 \/ v = 1) -> 1 <= sessions -> 0 <= p <= 1 -> 0 < rpo ->
  0 < ds_cov_sessions_lam ratio su ou ru avs aops arpo v sessions /\
  0 <= ds_cov_ops ratio su ou ru avs aops arpo v p <= 1 /\ 0 < rpo / ((1 + ru * v) / (1 + ou * v)).
Proof. eapply cov_parameters_valid; eassumption. Qed.

Theorem C20_covariates_carry_no_uplift v : (v = 0 \/ v = 1) ->
  E_cov_sessions ratio su ou ru avs aops arpo v = avs /\
  (su <= ou -> forall p, 0 <= p <= 1 ->
     ds_cov_ops ratio su ou ru avs aops arpo v p = p / ((1 + ou * v) / (1 + su * v))) /\
  E_orders_per_session ratio su ou ru avs aops arpo v / ((1 + ou * v) / (1 + su * v)) = aops.
Proof. apply covariates_have_no_uplift; assumption. Qed.
End Params.

Local Open Scope Z_scope.
(* users data: one row per user 0..n-1, every row meets the documented invariants *)
Theorem C20_users_data_rows ds : Forall udraw_ok ds ->
  Forall row_ok (users_data ds) /\ length (users_data ds) = length ds /\
  map r_user (users_data ds) = map (fun k => 0 + Z.of_nat k) (seq 0 (length ds)).
Proof. intros H. split; [apply users_from_ok; exact H|]. split; [apply users_data_length | apply users_from_ids]. Qed.

(* sessions data: every row meets the invariants (sessions = 1 per row, so 0 <= orders <= 1) *)
Theorem C20_sessions_data_rows us : Forall xuser_ok us -> Forall row_ok (sessions_data us).
Proof. exact (sessions_from_ok 0 us). Qed.

Theorem C20_sessions_rows_constant_within_user i u r1 r2 : In r1 (sessions_rows i u) -> In r2 (sessions_rows i u) ->
  r_user r1 = i /\ r_variant r1 = x_variant u /\ r_sessions r1 = 1 /\
  r_sessions_cov r1 = r_sessions_cov r2 /\ r_orders_cov r1 = r_orders_cov r2 /\ r_revenue_cov r1 = r_revenue_cov r2.
Proof. exact (sessions_rows_constant i u r1 r2). Qed.

(* sessions data is the per-session explosion of the same users: with the same variant and session-count draws
   (what the same seed gives), user i has its users-data variant and exactly its users-data `sessions` rows, in order *)
Theorem C20_sessions_data_explodes_users_data ds us : Forall xuser_ok us -> map shared_u ds = map shared_x us ->
  runs (sessions_data us) = map (fun r => (r_user r, r_variant r, r_sessions r)) (users_data ds).
Proof. exact (sessions_explode_users ds us). Qed.

Theorem C20_sessions_data_row_count us : Forall xuser_ok us ->
  Z.of_nat (length (sessions_data us)) = zsum (map (fun u => 1 + x_pois u) us).
Proof. exact (sessions_data_length 0 us). Qed.

(* .round(2) keeps the sign facts and moves a value by at most half a cent *)
Theorem C20_rounding q : (Qabs (round2 q - q) <= 1 # 200)%Q /\ ((0 <= q)%Q -> (0 <= round2 q)%Q) /\ ((q == 0)%Q -> (round2 q == 0)%Q).
Proof. split; [apply round2_error|]. split; [apply round2_nonneg | apply round2_zero]. Qed.

Print Assumptions C20_distribution_parameters_valid.
Print Assumptions C20_treatment_share.
Print Assumptions C20_uplifts_are_expected_relative_differences.
Print Assumptions C20_control_has_requested_averages.
Print Assumptions C20_sessions_data_same_expectations.
Print Assumptions C20_covariate_parameters_valid.
Print Assumptions C20_covariates_carry_no_uplift.
Print Assumptions C20_users_data_rows.
Print Assumptions C20_sessions_data_rows.
Print Assumptions C20_sessions_rows_constant_within_user.
Print Assumptions C20_sessions_data_explodes_users_data.
Print Assumptions C20_sessions_data_row_count.
Print Assumptions C20_rounding.

(* non-vacuity: the default parameters of make_users_data lie in the domain the theorems quantify over, and a concrete
   draw satisfies the in-contract predicate of the table theorems *)
Example C20_defaults_are_valid : ds_valid 1 0 (1/10) (1/10) 2 (1/4) 10 = true.
Proof. exact defaults_valid. Qed.
Print Assumptions C20_defaults_are_valid.
