(* C08 - reported power is the textbook power of the configured test and is monotone.
   Statements about rom_power_from_stats REGENERATED from metrics/mean.py, for every distribution family satisfying the
   laws of lib/Distr.v (incl. L7 location shift of the normal, L9 the noncentral t is stochastically increasing in its
   noncentrality).  Monotonicity in n is proved for the Z test (one-sided alternatives, effect in the direction of the
   alternative): the standard error is sqrt(v (1+r)^2 / (n r)), pooled or not.  Named partial (validated by the oracle,
   not proved): monotonicity in n for the t test and two-sided monotonicity in |effect| and in n (they need laws about
   the distribution families - unimodality, monotonicity of t power in the degrees of freedom - that are not assumed). *)
From Coq Require Import Reals String List Lra.
From TT Require Import lib.PreludeR lib.Stats lib.Distr lib.DistrWitness genR.Aggr genR.Mean proofs.Mean_core
  proofs.Mean_aggr proofs.C06_cuped proofs.C08_power proofs.C08_cov_power.
Import ListNotations.
Local Open Scope R_scope.

(* control and treatment receive n/(1+r) and n*r/(1+r) observations; the power is the rejection probability of the
   configured test under the alternative with standardised effect delta/se (noncentral t with the test's df, or a
   shifted normal) *)
Theorem C08_power_is_textbook fam cfg v n delta :
  let r := cfg_ratio cfg in let nc := n / (1 + r) in let nt := n * r / (1 + r) in
  let se := se_of (cfg_equal_var cfg) v nc v nt in let df := df_of (cfg_equal_var cfg) v nc v nt in
  let null := null_of fam (cfg_equal_var cfg) (cfg_use_t cfg) v nc v nt in
  let alt := alt_of fam (cfg_use_t cfg) df (delta / se) in
  rom_power_from_stats fam cfg v n delta =
  match cfg_alternative cfg with
  | Greater => sf alt (isf null (cfg_alpha cfg))
  | Less => cdf alt (ppf null (cfg_alpha cfg))
  | TwoSided => cdf alt (- isf null (cfg_alpha cfg / 2)) + sf alt (isf null (cfg_alpha cfg / 2))
  end.
Proof. exact (power_textbook fam cfg v n delta). Qed.

Section Laws.
Variable fam : dist_family R.
Hypothesis HF : fam_laws fam.
Variables (cfg : rom) (v n : R).
Hypothesis Hr : 0 < cfg_ratio cfg.
Hypothesis Hv : 0 < v.
Hypothesis Hnc : 1 < n / (1 + cfg_ratio cfg).                      (* each group larger than one observation *)
Hypothesis Hnt : 1 < n * cfg_ratio cfg / (1 + cfg_ratio cfg).
Hypothesis Ha : 0 < cfg_alpha cfg < 1.

Theorem C08_power_in_unit_interval delta : 0 <= rom_power_from_stats fam cfg v n delta <= 1.
Proof. apply (power_range fam HF cfg v n); assumption. Qed.

Theorem C08_power_increases_with_effect_greater d1 d2 : cfg_alternative cfg = Greater -> d1 < d2 ->
  rom_power_from_stats fam cfg v n d1 < rom_power_from_stats fam cfg v n d2.
Proof. apply (power_mono_greater fam HF cfg v n); assumption. Qed.
Theorem C08_power_increases_with_effect_less d1 d2 : cfg_alternative cfg = Less -> d1 < d2 ->
  rom_power_from_stats fam cfg v n d2 < rom_power_from_stats fam cfg v n d1.
Proof. apply (power_mono_less fam HF cfg v n); assumption. Qed.

Theorem C08_z_power_closed_form delta : cfg_use_t cfg = false -> cfg_alternative cfg = Greater ->
  rom_power_from_stats fam cfg v n delta
  = 1 - cdf (norm_ fam 0) (ppf (norm_ fam 0) (1 - cfg_alpha cfg)
                           - delta / se_of (cfg_equal_var cfg) v (n / (1 + cfg_ratio cfg)) v (n * cfg_ratio cfg / (1 + cfg_ratio cfg))).
Proof. apply (power_z_greater fam HF cfg v n); assumption. Qed.
End Laws.

(* Z test: power strictly increases with the total sample size when the effect points in the direction of the alternative *)
Theorem C08_z_power_increases_with_n fam cfg v n1 n2 delta : fam_laws fam ->
  0 < cfg_ratio cfg -> 0 < v -> 0 < cfg_alpha cfg < 1 -> cfg_use_t cfg = false ->
  1 < n1 / (1 + cfg_ratio cfg) -> 1 < n1 * cfg_ratio cfg / (1 + cfg_ratio cfg) -> n1 < n2 ->
  (cfg_alternative cfg = Greater -> 0 < delta ->
     rom_power_from_stats fam cfg v n1 delta < rom_power_from_stats fam cfg v n2 delta) /\
  (cfg_alternative cfg = Less -> delta < 0 ->
     rom_power_from_stats fam cfg v n1 delta < rom_power_from_stats fam cfg v n2 delta).
Proof.
  intros HF Hr Hv Ha Hz Hc Ht Hlt. split; intros Halt Hd.
  - apply (power_z_mono_n_greater fam HF cfg v Hr Hv Ha Hz n1 n2 delta); assumption.
  - apply (power_z_mono_n_less fam HF cfg v Hr Hv Hz n1 n2 delta); assumption.
Qed.
Theorem C08_standard_error_closed_form cfg v n : 0 < cfg_ratio cfg -> 0 < v ->
  1 < n / (1 + cfg_ratio cfg) -> 1 < n * cfg_ratio cfg / (1 + cfg_ratio cfg) ->
  se_of (cfg_equal_var cfg) v (n / (1 + cfg_ratio cfg)) v (n * cfg_ratio cfg / (1 + cfg_ratio cfg))
  = sqrt (v * ((1 + cfg_ratio cfg) * (1 + cfg_ratio cfg)) / (n * cfg_ratio cfg)).
Proof. intros Hr Hv Hc Ht. apply (se_n_closed cfg v Hr Hv n Hc Ht). Qed.

(* adding a covariate never raises the variance that enters the power computation *)
Theorem C08_covariate_never_raises_variance cfg l : dens_ok cfg l ->
  rom_metric_var cfg (aggr_of l) (theta_of cfg l) <= svar (linY cfg l) l.
Proof. exact (covariate_never_raises_variance cfg l). Qed.

(* ... and therefore never lowers the reported power (Z test, effect in the direction of a one-sided alternative):
   power is antitone in the variance that enters it *)
Theorem C08_z_power_antitone_in_variance fam cfg n v1 v2 delta : fam_laws fam ->
  0 < cfg_ratio cfg -> 0 < cfg_alpha cfg < 1 -> cfg_use_t cfg = false ->
  1 < n / (1 + cfg_ratio cfg) -> 1 < n * cfg_ratio cfg / (1 + cfg_ratio cfg) -> 0 < v1 -> v1 <= v2 ->
  (cfg_alternative cfg = Greater -> 0 <= delta -> rom_power_from_stats fam cfg v2 n delta <= rom_power_from_stats fam cfg v1 n delta) /\
  (cfg_alternative cfg = Less -> delta <= 0 -> rom_power_from_stats fam cfg v2 n delta <= rom_power_from_stats fam cfg v1 n delta).
Proof.
  intros HF Hr Ha Hz Hc Ht H1 H12. split; intros Halt Hd.
  - apply (power_z_antitone_in_var_greater fam HF cfg n Hr Ha Hz Hc Ht v1 v2 delta); assumption.
  - apply (power_z_antitone_in_var_less fam HF cfg n Hr Hz Hc Ht v1 v2 delta); assumption.
Qed.
Theorem C08_covariate_never_lowers_z_power fam cfg l n delta : fam_laws fam -> dens_ok cfg l ->
  0 < cfg_ratio cfg -> 0 < cfg_alpha cfg < 1 -> cfg_use_t cfg = false ->
  1 < n / (1 + cfg_ratio cfg) -> 1 < n * cfg_ratio cfg / (1 + cfg_ratio cfg) ->
  0 < rom_metric_var cfg (aggr_of l) (theta_of cfg l) -> cfg_alternative cfg = Greater -> 0 <= delta ->
  rom_power_from_stats fam cfg (svar (linY cfg l) l) n delta
  <= rom_power_from_stats fam cfg (rom_metric_var cfg (aggr_of l) (theta_of cfg l)) n delta.
Proof.
  intros HF Hd Hr Ha Hz Hc Ht Hpos Halt Hdelta.
  apply (power_z_antitone_in_var_greater fam HF cfg n Hr Ha Hz Hc Ht); try assumption.
  apply covariate_never_raises_variance. exact Hd.
Qed.

Example C08_nonvacuous : fam_laws logistic_family /\ 1 < 100 / (1 + 1) /\ 1 < 100 * 1 / (1 + 1).
Proof. split; [exact logistic_family_laws | lra]. Qed.

Print Assumptions C08_power_is_textbook.
Print Assumptions C08_power_in_unit_interval.
Print Assumptions C08_power_increases_with_effect_greater.
Print Assumptions C08_power_increases_with_effect_less.
Print Assumptions C08_z_power_closed_form.
Print Assumptions C08_covariate_never_raises_variance.
Print Assumptions C08_z_power_increases_with_n.
Print Assumptions C08_standard_error_closed_form.
Print Assumptions C08_z_power_antitone_in_variance.
Print Assumptions C08_covariate_never_lowers_z_power.
