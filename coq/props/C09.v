(* C09 - solving for effect size or sample size inverts the power function.
   Statements about find_boundary / rom_solve_power_from_stats REGENERATED from metrics/mean.py.
   scipy.optimize.brentq is an oracle `solver` with the contract solver_ok (a root inside a sign-changing bracket);
   the result-row assembly of solve_power_from_aggregates (product of effect sizes x n_obs in input order, abs/rel
   relation, ceil) is tied by the oracle of tools/props/C09.py only. *)
From Coq Require Import Reals String List Lra.
From TT Require Import lib.PreludeR lib.Distr genR.Aggr genR.Mean proofs.Mean_core proofs.C09_solve.
Local Open Scope R_scope.

(* _find_boundary returns b = init * mult^j with fn b <= 0 and fn > 0 at all earlier points ... *)
Theorem C09_find_boundary_exit fn init mult b : find_boundary_opt fn init mult = Some b ->
  fn b <= 0 /\ exists j, (j < MAX_ITER \/ MAX_ITER = 0)%nat /\ b = init * mult ^ j /\ forall i, (i < j)%nat -> 0 < fn (init * mult ^ i).
Proof. exact (find_boundary_from_some fn mult MAX_ITER init b). Qed.
(* ... and raises exactly when fn stays positive for MAX_ITER steps *)
Theorem C09_find_boundary_exhausted fn init mult : find_boundary_opt fn init mult = None ->
  forall i, (i < MAX_ITER)%nat -> 0 < fn (init * mult ^ i).
Proof. apply find_boundary_from_none. unfold MAX_ITER. repeat constructor. Qed.

(* the three modes *)
Theorem C09_mode_power fam solver cfg v n e :
  rom_solve_power_from_stats fam solver cfg v (Some n) (Some e) None = rom_power_from_stats fam cfg v n e.
Proof. exact (solve_mode_power fam solver cfg v n e). Qed.
Theorem C09_mode_effect_size fam solver cfg v n p :
  rom_solve_power_from_stats fam solver cfg v (Some n) None (Some p) =
  let fn := fun x => p - rom_power_from_stats fam cfg v n x in
  let other := find_boundary fn (sign_of cfg * 10 * sqrt (v / n)) 10 in
  solver fn (Rmin 0 other) (Rmax 0 other).
Proof. exact (solve_mode_effect fam solver cfg v n p). Qed.
Theorem C09_mode_n_obs fam solver cfg v e p :
  rom_solve_power_from_stats fam solver cfg v None (Some e) (Some p) =
  let fn := fun x => p - rom_power_from_stats fam cfg v x e in
  solver fn (n_lower cfg) (find_boundary fn (n_lower cfg * 10 / 3) 10).
Proof. exact (solve_mode_n_obs fam solver cfg v e p). Qed.

(* the n_obs search starts where each group has more than one observation - for every ratio > 0 *)
Theorem C09_n_obs_bracket_valid_for_every_ratio cfg : 0 < cfg_ratio cfg ->
  1 < n_lower cfg / (1 + cfg_ratio cfg) /\ 1 < n_lower cfg * cfg_ratio cfg / (1 + cfg_ratio cfg).
Proof. exact (n_lower_groups cfg). Qed.

(* substituting the returned effect size reproduces the target power; its sign follows the alternative
   (it lies between 0 and the boundary, which is init * 10^j with init = sign * 10 * sqrt(v/n)) *)
Theorem C09_solved_effect_reproduces_power fam solver cfg v n p other : solver_ok solver ->
  find_boundary_opt (fun x => p - rom_power_from_stats fam cfg v n x) (sign_of cfg * 10 * sqrt (v / n)) 10 = Some other ->
  rom_power_from_stats fam cfg v n 0 <= p ->
  let x := rom_solve_power_from_stats fam solver cfg v (Some n) None (Some p) in
  rom_power_from_stats fam cfg v n x = p /\ Rmin 0 other <= x <= Rmax 0 other.
Proof. exact (solved_effect_reproduces_power fam solver cfg v n p other). Qed.

Theorem C09_solved_n_obs_reproduces_power fam solver cfg v e p hi : solver_ok solver ->
  find_boundary_opt (fun x => p - rom_power_from_stats fam cfg v x e) (n_lower cfg * 10 / 3) 10 = Some hi ->
  rom_power_from_stats fam cfg v (n_lower cfg) e <= p -> n_lower cfg <= hi ->
  let x := rom_solve_power_from_stats fam solver cfg v None (Some e) (Some p) in
  rom_power_from_stats fam cfg v x e = p /\ n_lower cfg <= x <= hi.
Proof. exact (solved_n_obs_reproduces_power fam solver cfg v e p hi). Qed.

(* with power strictly increasing in n, every y at or above the root - in particular ceil(root), the reported
   n_obs - reaches the target and nothing below the root does: ceil(root) is the smallest such integer *)
Theorem C09_n_obs_is_minimal fam cfg v e p x :
  (forall a b, a < b -> rom_power_from_stats fam cfg v a e < rom_power_from_stats fam cfg v b e) ->
  rom_power_from_stats fam cfg v x e = p -> forall y, (x <= y <-> p <= rom_power_from_stats fam cfg v y e).
Proof. exact (n_obs_is_minimal fam cfg v e p x). Qed.

Example C09_nonvacuous :
  let cfg := mk_rom "x" None None None TwoSided (95 / 100) false true (5 / 100) 3 (8 / 10) in
  0 < cfg_ratio cfg /\ n_lower cfg = 6.
Proof. cbv zeta. split; [cbn; lra|]. unfold n_lower. cbn. unfold Rmax. destruct (Rle_dec (1 + 3) (1 + 1 / 3)); lra. Qed.

Print Assumptions C09_find_boundary_exit.
Print Assumptions C09_find_boundary_exhausted.
Print Assumptions C09_mode_power.
Print Assumptions C09_mode_effect_size.
Print Assumptions C09_mode_n_obs.
Print Assumptions C09_n_obs_bracket_valid_for_every_ratio.
Print Assumptions C09_solved_effect_reproduces_power.
Print Assumptions C09_solved_n_obs_reproduces_power.
Print Assumptions C09_n_obs_is_minimal.
