(* C04 - Mean reproduces the textbook two-sample t / Welch / Z test computed from the raw observations.
   `textbook` (lib/Textbook.v) is written from raw lists with cdf/ppf only; the left-hand side is the model
   REGENERATED from metrics/mean.py, applied to the exact aggregates of the rows (what C01 shows every backend
   returns).  All 12 option cells and every confidence level in (0,1) are one universally quantified statement. *)
From Coq Require Import Reals String List Lra.
From TT Require Import lib.PreludeR lib.Stats lib.Distr lib.DistrWitness lib.ExtR lib.Textbook genR.Aggr genR.Mean
  proofs.C14_pooling proofs.Mean_core proofs.Mean_aggr proofs.C04_textbook.
From TT Require Import lib.Plan lib.PlanSem model.ReadPlan proofs.C12_agree proofs.C01_denote proofs.C04_end_to_end.
Import ListNotations.
Local Open Scope R_scope.

Section C04.
Variable fam : dist_family R.
Hypothesis HF : fam_laws fam.
Variables (v : string) (alt : Base.alternative) (cl : R) (ev ut : bool) (alpha ratio power : R).
Variables lc lt : list row.
Hypothesis Hlc : (2 <= length lc)%nat.
Hypothesis Hlt : (2 <= length lt)%nat.
Hypothesis Hvar : 0 < svar (col v) lc + svar (col v) lt.
Hypothesis Hcl : 0 < cl < 1.

Let cfg := mean_cfg v None alt cl ev ut alpha ratio power.
Let r := rom_analyze_aggregates fam cfg (aggr_of lc) (aggr_of lt).
Let T := textbook fam alt ev ut cl (map (col v) lc) (map (col v) lt).

(* means, effect size, statistic, p-value, absolute interval, relative effect *)
Theorem C04_mean_is_textbook : tb_abs_eq r T.
Proof. exact (mean_textbook_abs fam HF v alt cl ev ut alpha ratio power lc lt Hlc Hlt Hvar Hcl). Qed.

(* relative interval = log-scale delta-method interval of the ratio of the two means (means of equal sign) *)
Theorem C04_relative_interval_is_log_delta : 0 < smean (col v) lc * smean (col v) lt -> tb_rel_eq r T.
Proof. exact (mean_textbook_rel fam HF v alt cl ev ut alpha ratio power lc lt Hlc Hlt Hvar Hcl). Qed.
End C04.

(* From the table to the analysis (with C01): the result rows that a builder's query plan yields for two variants, read
   back by _get_aggregates, give the metric exactly the analysis of the exact statistics of the two variants' rows - the
   object the theorems above (and C05 / C06 / C17) are about.  C01_plan_denotes_exact_statistics provides the hypothesis
   exact_for_gen for every builder, request and table. *)
Theorem C04_from_plan_rows_to_analysis fam cfg q g tbl repc rept oc ot :
  (forall c, In c (cfg_cols cfg) -> In c (r_mean q)) -> (forall c, In c (cfg_cols cfg) -> In c (r_var q)) ->
  (forall c d, In c (cfg_cols cfg) -> In d (cfg_cols cfg) -> c <> d -> In (sorted_tuple c d) (r_cov q)) ->
  NoDup (cfg_cols cfg) -> exact_for_gen q g tbl true repc oc -> exact_for_gen q g tbl true rept ot ->
  rom_analyze_aggregates fam cfg (row_aggr oc) (row_aggr ot)
  = rom_analyze_aggregates fam cfg (aggr_of (part g repc tbl)) (aggr_of (part g rept tbl)).
Proof.
  intros Hm Hv Hc Hnd Hec Het.
  exact (analysis_of_plan_rows_is_analysis_of_exact_statistics fam cfg q g tbl Hm Hv Hc repc rept oc ot Hnd Hec Het).
Qed.

(* non-vacuity: laws are satisfiable and a sample with non-zero variance exists *)
Example C04_nonvacuous :
  let r1 : row := fun _ => 1 in let r2 : row := fun _ => 3 in
  fam_laws logistic_family /\ (2 <= length [r1; r2])%nat /\ 0 < svar (col "x") [r1; r2] + svar (col "x") [r1; r2].
Proof.
  cbv zeta. split; [exact logistic_family_laws|]. split; [apply le_n|].
  unfold svar, scov, smean, cnt, col. cbn. lra.
Qed.

Print Assumptions C04_mean_is_textbook.
Print Assumptions C04_relative_interval_is_log_delta.
Print Assumptions C04_from_plan_rows_to_analysis.
