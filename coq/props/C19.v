(* C19 - parameters are accepted exactly when they lie in their documented domain.
   auto_check / check_scalar below are REGENERATED from /repo/src/tea_tasting/utils.py (genP/Utils.v); values range
   over the whole universe lib/PyVal.pyval: every int, every float incl. NaN and +-inf, bool, str, sequences, None. *)
From Coq Require Import ZArith QArith String List Bool.
From TT Require Import lib.PyVal genP.Utils model.C19_spec proofs.C19_domain.
Import ListNotations.

(* for every standard option and EVERY value: accepted <-> in the documented domain
   (the single exception, the empty string for n_obs, is the finding in props/C19_findings.v) *)
Theorem C19_auto_check_iff name v : In name auto_check_names -> ~ (name = "n_obs"%string /\ v = VStr "") ->
  is_ok (auto_check v name) = in_domain name v.
Proof. exact (auto_check_iff_lemma name v). Qed.

(* an accepted value is stored unchanged, so every stored standard option is in its domain *)
Theorem C19_accepted_value_is_returned v name r : auto_check v name = Ok r -> r = v.
Proof. exact (auto_check_returns_value v name r). Qed.

(* user-defined options are not restricted *)
Theorem C19_other_names_unrestricted name v : ~ In name auto_check_names -> auto_check v name = Ok v.
Proof. exact (other_names_unrestricted name v). Qed.

(* NaN is rejected wherever a bound is given (every comparison with NaN is false) *)
Theorem C19_nan_rejected name : In name ["alpha"; "power"; "confidence_level"; "ratio"]%string ->
  is_ok (auto_check (VFloat FNaN) name) = false.
Proof. intros H. cbn in H. repeat destruct H as [H|H]; try contradiction; subst; reflexivity. Qed.

(* the float order used by in_domain is the order of the rationals; NaN is unordered *)
Theorem C19_float_order x y : flt (FFin x) (FFin y) = true <-> (x < y)%Q.
Proof. exact (flt_fin x y). Qed.

Example C19_nonvacuous :
  In "alpha"%string auto_check_names /\ is_ok (auto_check (VFloat (FFin (1 # 20))) "alpha") = true
  /\ is_ok (auto_check (VFloat (FFin 1)) "alpha") = false /\ is_ok (auto_check (VSeq [VInt 10; VInt 20]) "n_obs") = true.
Proof. repeat split; cbn; tauto. Qed.

Print Assumptions C19_auto_check_iff.
Print Assumptions C19_accepted_value_is_returned.
Print Assumptions C19_other_names_unrestricted.
Print Assumptions C19_nan_rejected.
Print Assumptions C19_float_order.
