(* C03 - aggregate metrics are computed in the backend: one query, no row-level transfer.
   Statements about the hand model model/Experiment.v (fetch trace of Experiment.analyze / solve_power), tied to the
   code by fetch counters on Polars LazyFrame and Ibis tables (tools/props/C03.py).  That the single aggregate
   result has one row per variant (one row in total for power analysis) is part of the plan semantics of C01. *)
From Coq Require Import ZArith String List Bool.
From TT Require Import genP.ExperimentPairs model.Experiment proofs.C03_C12_experiment proofs.C03_shape.
Import ListNotations.

(* only aggregated metrics: exactly one fetch - the aggregate query grouped by the variant column - however many
   metrics, columns, variant pairs and data rows there are *)
Theorem C03_aggregated_only_one_query ms variant control all_variants variants tr :
  all_aggr ms -> has_aggr ms = true ->
  analyze_trace ms variant control all_variants variants = Some tr ->
  tr = [FAggr (merged_spec ms) (Some variant)].
Proof. exact (aggregated_only_trace ms variant control all_variants variants tr). Qed.

(* with row-level metrics: exactly one additional fetch ... *)
Theorem C03_one_additional_row_level_fetch ms variant control all_variants variants tr :
  aggr_or_gran ms -> has_aggr ms = true -> has_gran ms = true ->
  analyze_trace ms variant control all_variants variants = Some tr ->
  tr = [FAggr (merged_spec ms) (Some variant); FGran (merged_cols ms) variant].
Proof. exact (with_granular_trace ms variant control all_variants variants tr). Qed.
Theorem C03_row_level_only ms variant control all_variants variants tr :
  (forall m, In m ms -> exists c, m = MGran c) -> has_gran ms = true -> has_aggr ms = false ->
  analyze_trace ms variant control all_variants variants = Some tr ->
  tr = [FGran (merged_cols ms) variant].
Proof. exact (granular_only_trace ms variant control all_variants variants tr). Qed.

(* ... containing only the columns those metrics declared (plus the variant column, the second component of FGran) *)
Theorem C03_row_level_fetch_columns ms c :
  In c (merged_cols ms) <-> exists cols, In (MGran cols) ms /\ In c cols.
Proof. exact (granular_columns ms c). Qed.

(* power analysis: one ungrouped aggregate query, whatever mixture of metrics with aggregated power analysis
   (PowerBaseAggregated) and without any power analysis the experiment holds *)
Theorem C03_solve_power_one_query ps : (forall p, In p ps -> p <> PwPlain) -> has_power_aggr ps = true ->
  solve_power_trace ps = [FAggr (power_merged_spec ps) None].
Proof. exact (solve_power_single_query ps). Qed.
(* in general at most one aggregate query, issued first; anything else is a non-aggregated power metric reading the data *)
Theorem C03_solve_power_trace_shape ps : exists calls,
  (forall f, In f calls -> exists j, f = FPlain j (0, 0)%Z /\ nth_error ps j = Some PwPlain) /\
  solve_power_trace ps = (if has_power_aggr ps then [FAggr (power_merged_spec ps) None] else []) ++ calls.
Proof. exact (solve_power_trace_shape ps). Qed.

Example C03_nonvacuous :
  let ms := [MAggr (mk_spec true ["x"%string] ["x"%string] []); MAggr (mk_spec true ["y"%string] [] [])] in
  all_aggr ms /\ has_aggr ms = true /\
  analyze_trace ms "variant" None false [0%Z; 1%Z] = Some [FAggr (merged_spec ms) (Some "variant"%string)].
Proof.
  cbv zeta. split; [|split; reflexivity].
  intros m [<-|[<-|[]]]; eexists; reflexivity.
Qed.

Print Assumptions C03_aggregated_only_one_query.
Print Assumptions C03_one_additional_row_level_fetch.
Print Assumptions C03_row_level_only.
Print Assumptions C03_row_level_fetch_columns.
Print Assumptions C03_solve_power_one_query.
Print Assumptions C03_solve_power_trace_shape.

(* any mixture of metrics: at most one aggregate query and at most one row-level fetch, both issued first (read_data is
   the aggregate query, if the merged request is non-empty, followed by the row-level fetch, if any column is declared);
   the variants are read separately only when neither exists; every further access to the data is made by a metric that
   the shared reads do not serve (it is not aggregated / row-level, or it declares nothing), once per compared pair *)
Theorem C03_trace_shape_for_any_experiment ms variant control av variants tr :
  analyze_trace ms variant control av variants = Some tr ->
  exists calls,
    tr = read_data ms variant ++ (if has_aggr ms || has_gran ms then [] else [FVariants variant]) ++ calls /\
    (forall f, In f calls -> exists j m pair, f = FPlain j pair /\ nth_error ms j = Some m /\ self_served ms m /\
                                              In pair (variant_pairs control variants)) /\
    length (filter is_shared_read tr) <= 2 /\
    (forall f, In f (read_data ms variant) -> is_shared_read f = true).
Proof. exact (analyze_trace_shape ms variant control av variants tr). Qed.
Print Assumptions C03_trace_shape_for_any_experiment.
