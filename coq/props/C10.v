(* C10 - adjust_fdr / adjust_fwer implement the named procedures.
   Statements about the model REGENERATED from multiplicity.py (genR/Multiplicity.v): the two loops
   (_hochberg_stepup, _holm_stepdown, with Python's stable sorted() = lib/Loop.v) and the three corrections.
   `ps` is the family of p-values in INPUT order; outputs are (pvalue_adj, alpha_adj, null_rejected) per input position.
   Proved here: flag = (p <= alpha_adj) for every procedure/correction; closed forms (running min / max of the
   corrected p-values in rank order); order preservation; rejected <-> pvalue_adj <= alpha for BH, BY,
   Hochberg-Bonferroni and Holm-Bonferroni; range for BH/BY; order independence - the adjusted p-value and the rejection
   flag of a hypothesis depend only on its own p-value and the multiset of all p-values, ties included - for BH, BY,
   Hochberg-/Holm-Bonferroni and Hochberg-/Holm-Sidak (proofs/C10_perm.v); the Sidak equivalence rejected <-> pvalue_adj
   <= alpha for p-values in [0, 1] (real powers: Rpower).  NOT proved (validated by the oracle only, see DESIGN.md):
   purity of _copy_results; alpha_adj is NOT order independent at ties (known finding). *)
From Coq Require Import Reals List Arith Bool Lra Sorted.
From Coq Require Import Permutation.
From TT Require Import lib.PreludeR lib.Loop genR.Multiplicity proofs.C10_loop proofs.C10_multiplicity proofs.C10_perm.
Import ListNotations.
Local Open Scope R_scope.

(* 1. a hypothesis is flagged rejected exactly when pvalue <= alpha_adj (any correction) *)
Theorem C10_stepup_flag adjust ps j : (j < length ps)%nat ->
  let o := nth j (hochberg_stepup adjust ps) dflt in snd o = nleb (nth j ps 0) (snd (fst o)).
Proof. exact (stepup_flag_input adjust ps j). Qed.
Theorem C10_stepdown_flag adjust ps j : (j < length ps)%nat ->
  let o := nth j (holm_stepdown adjust ps) dflt in snd o = nleb (nth j ps 0) (snd (fst o)).
Proof. exact (stepdown_flag_input adjust ps j). Qed.

(* 2. the result at input position j is the loop's output for that hypothesis in rank order
      (descending for step-up, ascending for step-down; sorted_* is a sorted permutation of the indexed family) *)
Theorem C10_stepup_processes_sorted_family adjust ps j : (j < length ps)%nat ->
  StronglySorted desc (sorted_desc ps) /\ length (sorted_desc ps) = length ps /\
  exists t, nth_error (up_spec adjust (INR (length ps)) 1 0 0 (sorted_desc ps)) t
            = Some (j, nth j (hochberg_stepup adjust ps) dflt).
Proof. intros Hj. split; [apply sorted_desc_sorted|]. split; [apply sorted_desc_length | apply stepup_at; exact Hj]. Qed.
Theorem C10_stepdown_processes_sorted_family adjust ps j : (j < length ps)%nat ->
  StronglySorted asc (sorted_asc ps) /\ length (sorted_asc ps) = length ps /\
  exists t, nth_error (dn_spec adjust 0 1 1 (sorted_asc ps)) t = Some (j, nth j (holm_stepdown adjust ps) dflt).
Proof. intros Hj. split; [apply sorted_asc_sorted|]. split; [apply sorted_asc_length | apply stepdown_at; exact Hj]. Qed.

(* 3. closed forms: pvalue_adj of the t-th hypothesis in rank order is the running minimum (step-up, from 1) /
      maximum (step-down, from 0) of the corrected p-values of the hypotheses processed so far *)
Theorem C10_stepup_padj_closed_form adjust m pm am i l t idx pa aa rj :
  nth_error (up_spec adjust m pm am i l) t = Some (idx, (pa, aa, rj)) ->
  pa = rmin_list pm (avals adjust m i (firstn (S t) l)).
Proof. exact (up_padj adjust m pm am i l t idx pa aa rj). Qed.
Theorem C10_stepdown_padj_closed_form adjust pn ax k l t idx pa aa rj :
  nth_error (dn_spec adjust pn ax k l) t = Some (idx, (pa, aa, rj)) ->
  pa = rmax_list pn (dvals adjust k (firstn (S t) l)).
Proof. exact (dn_padj adjust pn ax k l t idx pa aa rj). Qed.

(* 4. adjusted p-values preserve the order of the raw ones *)
Theorem C10_stepup_padj_monotone adjust m pm am i l t idx pa aa rj t' idx' pa' aa' rj' :
  nth_error (up_spec adjust m pm am i l) t = Some (idx, (pa, aa, rj)) ->
  nth_error (up_spec adjust m pm am i l) t' = Some (idx', (pa', aa', rj')) -> (t <= t')%nat -> pa' <= pa.
Proof. exact (up_padj_monotone adjust m pm am i l t idx pa aa rj t' idx' pa' aa' rj'). Qed.
Theorem C10_stepdown_padj_monotone adjust pn ax k l t idx pa aa rj t' idx' pa' aa' rj' :
  nth_error (dn_spec adjust pn ax k l) t = Some (idx, (pa, aa, rj)) ->
  nth_error (dn_spec adjust pn ax k l) t' = Some (idx', (pa', aa', rj')) -> (t <= t')%nat -> pa <= pa'.
Proof. exact (dn_padj_monotone adjust pn ax k l t idx pa aa rj t' idx' pa' aa' rj'). Qed.

(* 5. rejection sets are those of the named procedures: step-up rejects a hypothesis iff it or a LARGER p-value meets
      its threshold; step-down iff it and all SMALLER ones meet theirs *)
Theorem C10_stepup_rejection adjust m pm i l :
  (forall j p, (i <= j < i + length l)%nat -> 0 < Tup adjust m j p) -> StronglySorted desc l ->
  forall t idx pa aa rj, nth_error (up_spec adjust m pm 0 i l) t = Some (idx, (pa, aa, rj)) ->
  rj = anyhit adjust m i (firstn (S t) l).
Proof. exact (up_rejection adjust m pm i l). Qed.
Theorem C10_stepdown_rejection adjust pn k l :
  (forall j p, (k <= j < k + length l)%nat -> Tdn adjust j p < 1) -> StronglySorted asc l ->
  forall t idx pa aa rj, nth_error (dn_spec adjust pn 1 k l) t = Some (idx, (pa, aa, rj)) ->
  rj = allhit adjust k (firstn (S t) l).
Proof. exact (dn_rejection adjust pn k l). Qed.

(* 6. rejected <-> pvalue_adj <= alpha, in input order *)
Theorem C10_bh_by_rejected_iff_padj alpha madj ps j : 0 < alpha < 1 -> 0 < madj -> (j < length ps)%nat ->
  let o := nth j (hochberg_stepup (benjamini_adjust (mk_benjamini alpha madj)) ps) dflt in
  snd o = true <-> fst (fst o) <= alpha.
Proof. exact (bh_rejected_iff_padj_input alpha madj ps j). Qed.
Theorem C10_hochberg_bonferroni_rejected_iff_padj alpha ps j : 0 < alpha < 1 -> (j < length ps)%nat ->
  let o := nth j (hochberg_stepup (bonferroni_adjust (mk_bonferroni alpha (INR (length ps)))) ps) dflt in
  snd o = true <-> fst (fst o) <= alpha.
Proof. exact (hochberg_bonferroni_rejected_iff_padj_input alpha ps j). Qed.
Theorem C10_holm_bonferroni_rejected_iff_padj alpha ps j : 0 < alpha < 1 -> (j < length ps)%nat ->
  let o := nth j (holm_stepdown (bonferroni_adjust (mk_bonferroni alpha (INR (length ps)))) ps) dflt in
  snd o = true <-> fst (fst o) <= alpha.
Proof. exact (holm_bonferroni_rejected_iff_padj_input alpha ps j). Qed.

(* 7. the corrections are the textbook ones; BH/BY corrected p-values stay in [p, 1] *)
Theorem C10_benjamini_correction alpha madj p k :
  benjamini_adjust (mk_benjamini alpha madj) p k = (Rmin (p * (madj / k)) 1, alpha / (madj / k)).
Proof. exact (bh_closed_form alpha madj p k). Qed.
Theorem C10_bonferroni_correction alpha m p k :
  bonferroni_adjust (mk_bonferroni alpha m) p k = (Rmin (p * (m - k + 1)) 1, alpha / (m - k + 1)).
Proof. exact (bonf_closed_form alpha m p k). Qed.
Theorem C10_benjamini_range alpha madj p k : 0 <= p <= 1 -> 0 < k <= madj ->
  p <= fst (benjamini_adjust (mk_benjamini alpha madj) p k) <= 1.
Proof. exact (bh_range alpha madj p k). Qed.

Example C10_nonvacuous : (1 < length [1 / 100; 4 / 100])%nat /\ 0 < 5 / 100 < 1 /\ 0 < INR 2.
Proof. cbn. repeat split; try lra; auto. Qed.

(* the outcome does not depend on the order of experiments / metrics: if the same multiset of p-values is presented in
   another order, a hypothesis with p-value p gets the same adjusted p-value and the same decision (ties included) *)
Theorem C10_bh_by_order_independent alpha madj ps ps' j j' p : 0 < alpha < 1 -> 0 < madj -> Permutation ps ps' -> 0 <= p ->
  nth_error ps j = Some p -> nth_error ps' j' = Some p ->
  let o := nth j (hochberg_stepup (benjamini_adjust (mk_benjamini alpha madj)) ps) dflt in
  let o' := nth j' (hochberg_stepup (benjamini_adjust (mk_benjamini alpha madj)) ps') dflt in
  fst (fst o) = fst (fst o') /\ snd o = snd o'.
Proof. exact (bh_order_independent alpha madj ps ps' j j' p). Qed.
Theorem C10_hochberg_bonferroni_order_independent alpha ps ps' j j' p : 0 < alpha < 1 -> Permutation ps ps' -> 0 <= p ->
  nth_error ps j = Some p -> nth_error ps' j' = Some p ->
  let o := nth j (hochberg_stepup (bonferroni_adjust (mk_bonferroni alpha (INR (length ps)))) ps) dflt in
  let o' := nth j' (hochberg_stepup (bonferroni_adjust (mk_bonferroni alpha (INR (length ps')))) ps') dflt in
  fst (fst o) = fst (fst o') /\ snd o = snd o'.
Proof. exact (hochberg_bonferroni_order_independent alpha ps ps' j j' p). Qed.
Theorem C10_holm_bonferroni_order_independent alpha ps ps' j j' p : 0 < alpha < 1 -> Permutation ps ps' -> 0 <= p ->
  nth_error ps j = Some p -> nth_error ps' j' = Some p ->
  let o := nth j (holm_stepdown (bonferroni_adjust (mk_bonferroni alpha (INR (length ps)))) ps) dflt in
  let o' := nth j' (holm_stepdown (bonferroni_adjust (mk_bonferroni alpha (INR (length ps')))) ps') dflt in
  fst (fst o) = fst (fst o') /\ snd o = snd o'.
Proof. exact (holm_bonferroni_order_independent alpha ps ps' j j' p). Qed.

(* Sidak (p-values that are probabilities) *)
Theorem C10_hochberg_sidak_rejected_iff_padj alpha ps j : 0 < alpha < 1 -> Forall unit_p ps -> (j < length ps)%nat ->
  let o := nth j (hochberg_stepup (sidak_adjust (mk_sidak alpha (INR (length ps)))) ps) dflt in
  snd o = true <-> fst (fst o) <= alpha.
Proof. exact (hochberg_sidak_rejected_iff_padj_input alpha ps j). Qed.
Theorem C10_holm_sidak_rejected_iff_padj alpha ps j : 0 < alpha < 1 -> Forall unit_p ps -> (j < length ps)%nat ->
  let o := nth j (holm_stepdown (sidak_adjust (mk_sidak alpha (INR (length ps)))) ps) dflt in
  snd o = true <-> fst (fst o) <= alpha.
Proof. exact (holm_sidak_rejected_iff_padj_input alpha ps j). Qed.
Theorem C10_hochberg_sidak_order_independent alpha ps ps' j j' p : 0 < alpha < 1 -> Permutation ps ps' -> Forall unit_p ps ->
  nth_error ps j = Some p -> nth_error ps' j' = Some p ->
  let o := nth j (hochberg_stepup (sidak_adjust (mk_sidak alpha (INR (length ps)))) ps) dflt in
  let o' := nth j' (hochberg_stepup (sidak_adjust (mk_sidak alpha (INR (length ps')))) ps') dflt in
  fst (fst o) = fst (fst o') /\ snd o = snd o'.
Proof. exact (hochberg_sidak_order_independent alpha ps ps' j j' p). Qed.
Theorem C10_holm_sidak_order_independent alpha ps ps' j j' p : 0 < alpha < 1 -> Permutation ps ps' -> Forall unit_p ps ->
  nth_error ps j = Some p -> nth_error ps' j' = Some p ->
  let o := nth j (holm_stepdown (sidak_adjust (mk_sidak alpha (INR (length ps)))) ps) dflt in
  let o' := nth j' (holm_stepdown (sidak_adjust (mk_sidak alpha (INR (length ps')))) ps') dflt in
  fst (fst o) = fst (fst o') /\ snd o = snd o'.
Proof. exact (holm_sidak_order_independent alpha ps ps' j j' p). Qed.

Print Assumptions C10_stepup_flag.
Print Assumptions C10_stepdown_flag.
Print Assumptions C10_stepup_processes_sorted_family.
Print Assumptions C10_stepdown_processes_sorted_family.
Print Assumptions C10_stepup_padj_closed_form.
Print Assumptions C10_stepdown_padj_closed_form.
Print Assumptions C10_stepup_padj_monotone.
Print Assumptions C10_stepdown_padj_monotone.
Print Assumptions C10_stepup_rejection.
Print Assumptions C10_stepdown_rejection.
Print Assumptions C10_bh_by_rejected_iff_padj.
Print Assumptions C10_hochberg_bonferroni_rejected_iff_padj.
Print Assumptions C10_holm_bonferroni_rejected_iff_padj.
Print Assumptions C10_benjamini_correction.
Print Assumptions C10_bonferroni_correction.
Print Assumptions C10_benjamini_range.
Print Assumptions C10_bh_by_order_independent.
Print Assumptions C10_hochberg_bonferroni_order_independent.
Print Assumptions C10_holm_bonferroni_order_independent.
Print Assumptions C10_hochberg_sidak_rejected_iff_padj.
Print Assumptions C10_holm_sidak_rejected_iff_padj.
Print Assumptions C10_hochberg_sidak_order_independent.
Print Assumptions C10_holm_sidak_order_independent.
