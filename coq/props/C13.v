(* C13 - global configuration is scoped, all-or-nothing, and captured at construction.
   Statements about the hand model model/Config.v (state machine of config.py with the constructors' parameter
   resolution; validation = auto_check regenerated from utils.py), tied to the code by the history differential.
   `pool` is the arbitrary list of Python values the operations may mention; `body` is an arbitrary (nested) block. *)
From Coq Require Import ZArith QArith String List Bool.
From TT Require Import lib.PyVal genP.Utils model.Config model.C19_spec proofs.C19_domain proofs.C13_config.
Import ListNotations.

(* leaving config_context - normally, through an exception in the body, or because entering failed - restores
   exactly the previous configuration, for any nesting and any mix of standard and user-defined options *)
Theorem C13_context_restores pool kvs body raise_in_body w :
  w_cfg (fst (exec_op pool (With kvs body raise_in_body) w)) = w_cfg w.
Proof. exact (context_restores_lemma pool kvs body raise_in_body w). Qed.

(* a set_config call that raises changes nothing *)
Theorem C13_set_config_atomic pool kvs s e :
  snd (set_config pool kvs s) = Err e -> fst (set_config pool kvs s) = s.
Proof. exact (set_config_atomic_lemma pool kvs s e). Qed.

(* get_config() hands out a copy: mutating it has no effect *)
Theorem C13_get_config_copy pool k v w : exec_op pool (GetConfigMutate k v) w = (w, Normal).
Proof. exact (get_config_copy_lemma pool k v w). Qed.

(* explicit arguments always win; an unspecified parameter takes the value in force at construction *)
Theorem C13_explicit_argument_wins pool k v t s r :
  resolve pool ((k, Some v) :: t) s = Ok r -> exists r', r = (k, Some v) :: r'.
Proof. exact (resolve_explicit pool k v t s r). Qed.
Theorem C13_default_from_config_in_force pool k t s r :
  resolve pool ((k, None) :: t) s = Ok r -> exists r', r = (k, lookup s k) :: r'.
Proof. exact (resolve_default pool k t s r). Qed.

(* later configuration changes never alter an existing metric's parameters: the records constructed so far
   are a prefix of the records after ANY further history *)
Theorem C13_later_changes_never_alter_metrics pool history w :
  exists ext, w_metrics (fst (exec pool history w)) = w_metrics w ++ ext.
Proof. exact (construction_captured_lemma pool history w). Qed.

(* with C19: no reachable configuration holds a standard option outside its documented domain *)
Theorem C13_config_stays_valid pool history w :
  cfg_ok pool (w_cfg w) -> cfg_ok pool (w_cfg (fst (exec pool history w))).
Proof. exact (exec_ok pool history w). Qed.

Example C13_nonvacuous :
  let pool := [VFloat (FFin (1 # 100)%Q); VFloat (FFin 5%Q)] in
  let w := mk_world [("alpha"%string, 0%nat)] [] in
  cfg_ok pool (w_cfg w) /\
  snd (set_config pool [("alpha"%string, Some 0%nat); ("power"%string, Some 1%nat)] (w_cfg w)) = Err ValueError.
Proof.
  cbv zeta. split; [|reflexivity].
  intros k v H. cbn in H. destruct (String.eqb k "alpha") eqn:E; [|discriminate].
  apply String.eqb_eq in E. subst k. injection H as <-. reflexivity.
Qed.

Print Assumptions C13_context_restores.
Print Assumptions C13_set_config_atomic.
Print Assumptions C13_get_config_copy.
Print Assumptions C13_explicit_argument_wins.
Print Assumptions C13_default_from_config_in_force.
Print Assumptions C13_later_changes_never_alter_metrics.
Print Assumptions C13_config_stays_valid.
