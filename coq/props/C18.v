(* C18 - degenerate but valid data gives NaN / inf results, never an exception.
   genX/Aggr.v and genX/Mean.v are REGENERATED from aggr.py / metrics/mean.py (the same text as the genR / genQ instances)
   and read in the exception semantics of lib/PreludeX.v: Plain / Wrapped (utils.Float, utils.Int) / Raise values over
   IEEE specials; plain x / 0 raises ZeroDivisionError, math.sqrt below zero raises ValueError, math.exp of a large
   argument raises OverflowError; Wrapped operands divide with utils.div.
   The theorems quantify over ALL input statistics that are numbers - finite of any sign and size (so every rounding
   error, e.g. a variance of -1e-17, is covered), +-inf and NaN - every configuration, and every distribution family
   whose methods return plain floats without raising (scipy.stats frozen distributions; trusted, observed by the oracle).
   Not modelled: rounding and overflow inside a computation (the finite arithmetic is exact; the proof is a kind derivation
   valid for every operand value), the data backends (C01 / C02). *)
From Coq Require Import QArith String List Bool.
From TT Require Import lib.PreludeX genX.Aggr genX.Mean proofs.C18_noraise.
Local Open Scope num_scope.

(* Mean / RatioOfMeans analysis of any two variants' statistics returns a result: no field is an exception *)
Theorem C18_analysis_never_raises fam cfg control treatment :
  fam_total fam -> NR (cfg_confidence_level cfg) -> NRA control -> NRA treatment ->
  result_NR (rom_analyze_aggregates fam cfg control treatment).
Proof. intros HF Hcl Hc Ht. apply analyze_aggregates_NR; assumption. Qed.

(* the documented rule: whenever the division dispatches to utils.div (a Float / Int on the left, a Float on the right, or an
   int over an Int), x / 0 is +inf for x > 0 and NaN otherwise - never an exception; an ordinary division by zero raises, and so
   does float / Int, which Python hands to float.__truediv__ *)
Theorem C18_division_by_zero_rule i j a z : fis_zero z = true ->
  (Wrapped i a / Plain j z = Wrapped false (if fltb (FFin 0) a then FPInf else FNaN) /\
   Wrapped i a / Wrapped j z = Wrapped false (if fltb (FFin 0) a then FPInf else FNaN) /\
   Plain j a / Wrapped false z = Wrapped false (if fltb (FFin 0) a then FPInf else FNaN) /\
   Plain true a / Wrapped j z = Wrapped false (if fltb (FFin 0) a then FPInf else FNaN)) /\
  (Plain i a / Plain j z = Raise ZeroDivisionError /\ Plain false a / Wrapped true z = Raise ZeroDivisionError).
Proof. intros H. split; [apply wrapped_div_zero; exact H | apply plain_div_zero; exact H]. Qed.
Theorem C18_division_otherwise a b : fis_zero b = false -> udiv a b = fdiv a b.
Proof. exact (udiv_nonzero a b). Qed.

(* the point estimates keep their values whatever else degenerates (no covariates: Mean(value), RatioOfMeans(numer, denom)) *)
Theorem C18_point_fields_exact fam cfg control treatment :
  cfg_numer_covariate cfg = None -> cfg_denom_covariate cfg = None -> NRA control -> NRA treatment ->
  let c := agg_with_zero_div control in let t := agg_with_zero_div treatment in
  let r := rom_analyze_aggregates fam cfg control treatment in
  xeq (mr_control r) (agg_mean c (Some (cfg_numer cfg)) / agg_mean c (cfg_denom cfg)) /\
  xeq (mr_treatment r) (agg_mean t (Some (cfg_numer cfg)) / agg_mean t (cfg_denom cfg)) /\
  mr_effect_size r = mr_treatment r - mr_control r /\
  mr_rel_effect_size r = mr_treatment r / mr_control r - nlit 1.
Proof. intros Hn Hd Hc Ht. apply no_covariate_analysis; assumption. Qed.
(* with covariates too, the four point fields are read off the adjusted means by the same formulas *)
Theorem C18_point_fields_from_means fam cfg cm cv cn tm tv tn :
  let r := rom_analyze_stats fam cfg cm cv cn tm tv tn in
  mr_control r = cm /\ mr_treatment r = tm /\ mr_effect_size r = tm - cm /\ mr_rel_effect_size r = tm / cm - nlit 1.
Proof. exact (analyze_stats_point_fields fam cfg cm cv cn tm tv tn). Qed.

(* why the guards in the code are needed: without them these inputs raise *)
Theorem C18_unclamped_sqrt_raises i q : (q < 0)%Q -> nsqrt (Wrapped i (FFin q)) = Raise ValueError.
Proof. exact (sqrt_negative_raises i q). Qed.
Theorem C18_unguarded_exp_raises i q : (709 < q)%Q ->
  nexp (Plain i (FFin q)) = Raise OverflowError /\ nexp_sat (Plain i (FFin q)) = Plain false FPInf.
Proof. exact (exp_overflow_raises i q). Qed.

(* non-vacuity: a total family exists, and a degenerate input (zero variances, zero control mean) evaluates to inf / NaN fields *)
Definition degenerate (m : Q) : aggregates xv :=
  mk_aggregates (Some (nlit 2)) (fun _ => Plain false (FFin m)) (fun _ => nlit 0) (fun _ => nlit 0).
Definition cfg0 : rom := mk_rom "x" None None None TwoSided (Plain false (FFin (19 # 20))) false true (Plain false (FFin (1 # 20))) (nlit 1) (Plain false (FFin (4 # 5))).
Example C18_nonvacuous :
  fam_total const_family /\ NRA (degenerate 0) /\ NRA (degenerate 1) /\
  let r := rom_analyze_aggregates const_family cfg0 (degenerate 0) (degenerate 1) in
  mr_control r = Wrapped false (FFin 0) /\ mr_effect_size r = Wrapped false (FFin 1) /\ mr_rel_effect_size r = Wrapped false FPInf /\
  mr_statistic r = Wrapped false FPInf.
Proof.
  split; [exact const_family_total|].
  split; [unfold NRA, degenerate; simpl; repeat split; eauto; exists (nlit 2); split; [reflexivity | exact I]|].
  split; [unfold NRA, degenerate; simpl; repeat split; eauto; exists (nlit 2); split; [reflexivity | exact I]|].
  vm_compute. repeat split.
Qed.

Print Assumptions C18_analysis_never_raises.
Print Assumptions C18_division_by_zero_rule.
Print Assumptions C18_division_otherwise.
Print Assumptions C18_point_fields_exact.
Print Assumptions C18_point_fields_from_means.
Print Assumptions C18_unclamped_sqrt_raises.
Print Assumptions C18_unguarded_exp_raises.
