(* C16 - rendered results are faithful to the numbers and consistent across views.
   Statements about the hand model model/Render.v (exact decimal rendering of the rational a float denotes), tied to
   utils.format_num / DictsReprMixin by exact string equality (tools/props/C16.py).
   The digit layer (proofs/C16_digits.v): the decimal text of `digits` denotes its number, zero padding and "_" grouping
   preserve it, so the two fields of the fixed-point text denote exactly m / 10^p for the rounded integer m.
   Named partial (validated, not proved): the same for the exponent layout (mantissa and exponent fields are produced by
   the same `digits`, the layout itself is tied by string equality only); floor_log10 finds the decade within its +-400
   search range; the float operations round(), math.log10 and val * 100 behave like the exact ones for sig <= 6. *)
From Coq Require Import ZArith String Ascii List Bool.
From TT Require Import model.Render proofs.C16_render proofs.C16_digits.
Import ListNotations.
Local Open Scope Z_scope.

(* correct rounding: the rounded value is within half a unit in the last printed place, ties to even *)
Theorem C16_rounding_is_correct n d : 0 < d -> 2 * Z.abs (round_half_even n d * d - n) <= d.
Proof. exact (round_half_even_error n d). Qed.
Theorem C16_ties_go_to_even n d : 0 < d -> 2 * (n mod d) = d -> Z.even (round_half_even n d) = true.
Proof. exact (round_half_even_tie n d). Qed.

(* s significant digits: if 10^(s-1-p) <= a/d (p decimals are printed) then the printed value m/10^p satisfies
   |m/10^p - a/d| <= 0.5 * 10^(1-s) * (a/d)   - stated without division *)
Theorem C16_relative_error_bound a d (s p : nat) : 0 < d -> 0 <= a ->
  d * 10 ^ Z.of_nat (s - 1) <= a * pow10 p ->
  let m := round_half_even (a * pow10 p) d in
  2 * Z.abs (m * d - a * pow10 p) * 10 ^ Z.of_nat (s - 1) <= a * pow10 p.
Proof. exact (significant_digits_error a d s p). Qed.

(* NaN / None, infinities, sign and percent *)
Theorem C16_specials sig pct :
  format_num_model FNone sig pct = "-"%string /\ format_num_model FNan sig pct = "-"%string /\
  format_num_model (FInf true) sig pct = "∞"%string /\ format_num_model (FInf false) sig pct = ("-" ++ "∞")%string.
Proof. repeat split. Qed.
Theorem C16_sign_and_percent n d sig pct : exists body,
  format_num_model (FNum n d) sig pct
  = ((if Z.ltb n 0 then "-" else "") ++ body ++ (if pct then "%" else ""))%string.
Proof. unfold format_num_model. eexists. reflexivity. Qed.

(* to_string: every cell is right-justified (spaces on the left only) to the width of its column; the width is at
   least the length of the header and of every cell, so all lines have the same length *)
Theorem C16_right_justified w s : exists pad, rjust w s = (pad ++ s)%string /\ forallb (Ascii.eqb " ") (to_list pad) = true.
Proof. exact (rjust_suffix w s). Qed.
Theorem C16_cell_width h cells c : In c cells -> str_len (rjust (col_width h cells) c) = col_width h cells.
Proof. exact (padded_cell_has_column_width h cells c). Qed.
Theorem C16_header_fits h cells : (str_len h <= col_width h cells)%nat.
Proof. exact (col_width_ge_header h cells). Qed.

(* to_html: text is escaped - no raw angle bracket remains - and unescaping gives the cell back *)
Theorem C16_html_has_no_raw_markup s :
  forallb (fun c => negb (Ascii.eqb c "<") && negb (Ascii.eqb c ">")) (to_list (escape_html s)) = true.
Proof. exact (escape_no_angle s). Qed.
Theorem C16_html_cells_round_trip s : unescape_html (escape_html s) = s.
Proof. exact (unescape_escape s). Qed.

Example C16_nonvacuous :
  format_num_model (FNum 1234567891 1000) 3 false = "1_234_568"%string /\
  format_num_model (FNum 99999 1000) 3 false = "100"%string /\
  format_num_model (FNum 12345 100000000) 3 false = "1.23e-04"%string /\
  format_num_model (FNum (-1234) 100) 2 true = "-12%"%string.
Proof. repeat split; vm_compute; reflexivity. Qed.

(* the text of a non-negative integer is a digit string that parses back to it, with no leading zero beyond "0" *)
Theorem C16_digits_denote_their_number n : 0 <= n ->
  all_digits (digits n) /\ parse_nat (digits n) = n /\ (0 < str_len (digits n))%nat /\
  n < 10 ^ Z.of_nat (str_len (digits n)) /\ (str_len (digits n) = 1%nat \/ 10 ^ (Z.of_nat (str_len (digits n)) - 1) <= n).
Proof. exact (digits_spec n). Qed.
(* fixed-point text "I.F" of the rounded integer m with p decimals: I (after removing the "_" grouping) parses to m / 10^p,
   F has exactly p digits and parses to m mod 10^p - the text denotes m / 10^p exactly *)
Theorem C16_fixed_text_denotes_rounded_value m p : 0 <= m -> (0 < p)%nat ->
  let ip := m / pow10 p in let fp := m mod pow10 p in
  let frac := pad_zeros (p - str_len (digits fp)) (digits fp) in
  parse_nat (ungroup (group3 (digits ip))) = ip /\ parse_nat frac = fp /\ str_len frac = p /\ ip * pow10 p + fp = m.
Proof. exact (fixed_fields_denote m p). Qed.

Print Assumptions C16_rounding_is_correct.
Print Assumptions C16_ties_go_to_even.
Print Assumptions C16_relative_error_bound.
Print Assumptions C16_specials.
Print Assumptions C16_sign_and_percent.
Print Assumptions C16_right_justified.
Print Assumptions C16_cell_width.
Print Assumptions C16_header_fits.
Print Assumptions C16_html_has_no_raw_markup.
Print Assumptions C16_html_cells_round_trip.
Print Assumptions C16_digits_denote_their_number.
Print Assumptions C16_fixed_text_denotes_rounded_value.
