(* C16 - rendered results are faithful to the numbers and consistent across views.
   Statements about the hand model model/Render.v (exact decimal rendering of the rational a float denotes), tied to
   utils.format_num / DictsReprMixin by exact string equality (tools/props/C16.py).
   The digit layer (proofs/C16_digits.v): the decimal text of `digits` denotes its number, zero padding and "_" grouping
   preserve it, so the two fields of the fixed-point text denote exactly m / 10^p for the rounded integer m.
   Exponent layout (proofs/C16_exp.v): the fuelled search finds the decimal exponent, the mantissa is normalised and
   correctly rounded also after a carry, the fields denote (m, e).  Fixed-point branch (proofs/C16_fixed.v): the number of
   decimals is re-derived after rounding and the second rendering never rounds again.  Dataframe views (model/Views.v).
   Named partial (validated, not proved): the float operations round(), math.log10 and val * 100 behave like the exact
   ones for sig <= 6; pandas / polars / pyarrow constructors (differential only). *)
From Coq Require Import ZArith String Ascii List Bool.
From TT Require Import model.Render model.Views proofs.C16_render proofs.C16_digits proofs.C16_exp proofs.C16_fixed proofs.C16_views.
Import ListNotations.
Local Open Scope Z_scope.

(* correct rounding: the rounded value is within half a unit in the last printed place, ties to even *)
Theorem C16_rounding_is_correct n d : 0 < d -> 2 * Z.abs (round_half_even n d * d - n) <= d.
Proof. exact (round_half_even_error n d). Qed.
Theorem C16_ties_go_to_even n d : 0 < d -> 2 * (n mod d) = d -> Z.even (round_half_even n d) = true.
Proof. exact (round_half_even_tie n d). Qed.

(* s significant digits: if 10^(s-1-p) <= a/d (p decimals are printed) then the printed value m/10^p satisfies
   |m/10^p - a/d| <= 0.5 * 10^(1-s) * (a/d)   - stated without division *)
Theorem C16_relative_error_bound a d (s p : nat) : 0 < d -> 0 <= a ->
  d * 10 ^ Z.of_nat (s - 1) <= a * pow10 p ->
  let m := round_half_even (a * pow10 p) d in
  2 * Z.abs (m * d - a * pow10 p) * 10 ^ Z.of_nat (s - 1) <= a * pow10 p.
Proof. exact (significant_digits_error a d s p). Qed.

(* NaN / None, infinities, sign and percent *)
Theorem C16_specials sig pct :
  format_num_model FNone sig pct = "-"%string /\ format_num_model FNan sig pct = "-"%string /\
  format_num_model (FInf true) sig pct = "∞"%string /\ format_num_model (FInf false) sig pct = ("-" ++ "∞")%string.
Proof. repeat split. Qed.
Theorem C16_sign_and_percent n d sig pct : exists body,
  format_num_model (FNum n d) sig pct
  = ((if Z.ltb n 0 then "-" else "") ++ body ++ (if pct then "%" else ""))%string.
Proof. unfold format_num_model. eexists. reflexivity. Qed.

(* to_string: every cell is right-justified (spaces on the left only) to the width of its column; the width is at
   least the length of the header and of every cell, so all lines have the same length *)
Theorem C16_right_justified w s : exists pad, rjust w s = (pad ++ s)%string /\ forallb (Ascii.eqb " ") (to_list pad) = true.
Proof. exact (rjust_suffix w s). Qed.
Theorem C16_cell_width h cells c : In c cells -> str_len (rjust (col_width h cells) c) = col_width h cells.
Proof. exact (padded_cell_has_column_width h cells c). Qed.
Theorem C16_header_fits h cells : (str_len h <= col_width h cells)%nat.
Proof. exact (col_width_ge_header h cells). Qed.

(* to_html: text is escaped - no raw angle bracket remains - and unescaping gives the cell back *)
Theorem C16_html_has_no_raw_markup s :
  forallb (fun c => negb (Ascii.eqb c "<") && negb (Ascii.eqb c ">")) (to_list (escape_html s)) = true.
Proof. exact (escape_no_angle s). Qed.
Theorem C16_html_cells_round_trip s : unescape_html (escape_html s) = s.
Proof. exact (unescape_escape s). Qed.

Example C16_nonvacuous :
  format_num_model (FNum 1234567891 1000) 3 false = "1_234_568"%string /\
  format_num_model (FNum 99999 1000) 3 false = "100"%string /\
  format_num_model (FNum 12345 100000000) 3 false = "1.23e-04"%string /\
  format_num_model (FNum (-1234) 100) 2 true = "-12%"%string.
Proof. repeat split; vm_compute; reflexivity. Qed.

(* the text of a non-negative integer is a digit string that parses back to it, with no leading zero beyond "0" *)
Theorem C16_digits_denote_their_number n : 0 <= n ->
  all_digits (digits n) /\ parse_nat (digits n) = n /\ (0 < str_len (digits n))%nat /\
  n < 10 ^ Z.of_nat (str_len (digits n)) /\ (str_len (digits n) = 1%nat \/ 10 ^ (Z.of_nat (str_len (digits n)) - 1) <= n).
Proof. exact (digits_spec n). Qed.
(* fixed-point text "I.F" of the rounded integer m with p decimals: I (after removing the "_" grouping) parses to m / 10^p,
   F has exactly p digits and parses to m mod 10^p - the text denotes m / 10^p exactly *)
Theorem C16_fixed_text_denotes_rounded_value m p : 0 <= m -> (0 < p)%nat ->
  let ip := m / pow10 p in let fp := m mod pow10 p in
  let frac := pad_zeros (p - str_len (digits fp)) (digits fp) in
  parse_nat (ungroup (group3 (digits ip))) = ip /\ parse_nat frac = fp /\ str_len frac = p /\ ip * pow10 p + fp = m.
Proof. exact (fixed_fields_denote m p). Qed.

Print Assumptions C16_rounding_is_correct.
Print Assumptions C16_ties_go_to_even.
Print Assumptions C16_relative_error_bound.
Print Assumptions C16_specials.
Print Assumptions C16_sign_and_percent.
Print Assumptions C16_right_justified.
Print Assumptions C16_cell_width.
Print Assumptions C16_header_fits.
Print Assumptions C16_html_has_no_raw_markup.
Print Assumptions C16_html_cells_round_trip.
Print Assumptions C16_digits_denote_their_number.
Print Assumptions C16_fixed_text_denotes_rounded_value.

(* ---------- the exponent layout and the choice of decimals (proofs/C16_exp.v, proofs/C16_fixed.v) ---------- *)
(* ge_pow10 n d e  is  10^e <= n/d  in integers.  The fuelled search finds THE decimal exponent of every ratio between
   10^-401 and 10^400 (binary64 magnitudes lie between 4.9e-324 and 1.8e308). *)
Theorem C16_decimal_exponent_is_floor_log10 n d : 0 < d -> ge_pow10 n d (- 401) -> ~ ge_pow10 n d 400 ->
  ge_pow10 n d (floor_log10 n d) /\ ~ ge_pow10 n d (floor_log10 n d + 1).
Proof. exact (floor_log10_spec n d). Qed.
(* exponent format: the text is the rendering of a pair (m, e) ... *)
Theorem C16_exponent_text_renders_mantissa_and_exponent n d p :
  exp_abs n d p = let '(m, e) := exp_parts n d p in exp_text m e p.
Proof. exact (exp_abs_text n d p). Qed.
(* ... whose mantissa m / 10^p is normalised (one non-zero leading digit, also after a carry 9.996 -> 10.00 -> 1.00e+01),
   is the half-even rounding of (n/d) / 10^e to p decimals, and is within 1/2 * 10^-p relative of n/d *)
Theorem C16_exponent_mantissa_is_normalised_and_correctly_rounded n d p :
  0 < n -> 0 < d -> ge_pow10 n d (- 401) -> ~ ge_pow10 n d 400 ->
  let '(m, e) := exp_parts n d p in
  pow10 p <= m < 10 * pow10 p /\
  m = round_half_even (scale_n n e * pow10 p) (scale_d d e) /\
  2 * Z.abs (m * scale_d d e - scale_n n e * pow10 p) <= scale_d d e /\
  2 * Z.abs (m * scale_d d e - scale_n n e * pow10 p) <= scale_n n e /\
  (e = floor_log10 n d \/ (e = floor_log10 n d + 1 /\ m = pow10 p)).
Proof. exact (exp_parts_spec n d p). Qed.
(* the fields of that text denote m and e: one leading digit 1..9, exactly p fraction digits, the exponent digits *)
Theorem C16_exponent_fields_denote m e p : pow10 p <= m < 10 * pow10 p -> (0 < p)%nat ->
  let ip := m / pow10 p in let fp := m mod pow10 p in
  let frac := pad_zeros (p - str_len (digits fp)) (digits fp) in
  1 <= ip <= 9 /\ digits ip = String (digit_char ip) EmptyString /\
  parse_nat frac = fp /\ str_len frac = p /\ ip * pow10 p + fp = m /\
  parse_nat (digits (Z.abs e)) = Z.abs e.
Proof. exact (exp_fields_denote m e p). Qed.
(* fixed-point branch of format_num: decimals p from the decade of the value, rounding, decimals p' from the decade of the
   ROUNDED value (99.96 -> 100.0 has one decimal less), rendering with p' decimals.  The second step never rounds again:
   the rendered number m'/10^p' is exactly the first rounding m/10^p ... *)
Theorem C16_fixed_point_text_is_the_first_rounding a d (s : nat) :
  0 < a -> 0 < d -> (1 <= s)%nat -> ge_pow10 a d (- 401) -> ~ ge_pow10 a d 399 ->
  let p := Z.to_nat (Z.max 0 (Z.of_nat s - 1 - floor_log10 a d)) in
  let m := round_half_even (a * pow10 p) d in
  let p' := Z.to_nat (Z.max 0 (Z.of_nat s - 1 - floor_log10 m (pow10 p))) in
  let m' := round_half_even (m * pow10 p') (pow10 p) in
  m' * pow10 p = m * pow10 p' /\ 0 < m.
Proof. exact (rendered_is_first_rounding a d s). Qed.
(* ... which is within 1/2 * 10^(1-s) relative of the value: s significant digits *)
Theorem C16_fixed_point_relative_error a d (s : nat) :
  0 < a -> 0 < d -> (1 <= s)%nat -> ge_pow10 a d (- 401) -> ~ ge_pow10 a d 399 ->
  let p := Z.to_nat (Z.max 0 (Z.of_nat s - 1 - floor_log10 a d)) in
  let m := round_half_even (a * pow10 p) d in
  2 * Z.abs (m * d - a * pow10 p) * 10 ^ Z.of_nat (s - 1) <= a * pow10 p.
Proof. exact (rendered_relative_error a d s). Qed.
Example C16_decade_hypotheses_hold : 0 < 9996 /\ 0 < 1000 /\ ge_pow10 9996 1000 (- 401) /\ ~ ge_pow10 9996 1000 399 /\
  exp_parts 9996 1000 2 = (100, 1) /\ exp_abs 9996 1000 2 = "1.00e+01"%string.
Proof. unfold ge_pow10. repeat split; try (vm_compute; congruence); vm_compute; intros C; discriminate C. Qed.

(* ---------- dataframe views (model/Views.v, proofs/C16_views.v) ---------- *)
(* to_arrow (and pandas / polars on to_dicts()): the columns are exactly the keys occurring in some row, each once; rows
   keep their number and order; a cell is what its row holds under the column's key, nothing a row holds is lost, and a
   key a row lacks is a null cell *)
Theorem C16_view_columns_are_the_union_of_keys {V} (rows : list (list (string * V))) k :
  In k (union_keys rows) <-> exists row, In row rows /\ In k (row_keys row).
Proof. exact (columns_are_the_union rows k). Qed.
Theorem C16_view_columns_distinct {V} (rows : list (list (string * V))) : NoDup (union_keys rows).
Proof. exact (columns_distinct rows). Qed.
Theorem C16_view_rows_in_order {V} (rows : list (list (string * V))) i row : nth_error rows i = Some row ->
  nth_error (snd (view rows)) i = Some (view_row (union_keys rows) row) /\ length (snd (view rows)) = length rows.
Proof. exact (rows_in_order_and_count rows i row). Qed.
Theorem C16_view_loses_no_value {V} (rows : list (list (string * V))) row k : In row rows -> In k (row_keys row) ->
  exists j v, nth_error (union_keys rows) j = Some k /\
              nth_error (view_row (union_keys rows) row) j = Some (Some v) /\ In (k, v) row.
Proof. exact (no_value_lost rows row k). Qed.
Theorem C16_view_absent_key_is_null {V} (row : list (string * V)) k : ~ In k (row_keys row) -> lookup k row = None.
Proof. exact (absent_key_is_null row k). Qed.
Example C16_view_example :
  view [[("metric", 1%Z); ("control", 2%Z)]; [("metric", 3%Z); ("pvalue", 4%Z); ("control", 5%Z)]]%string
  = (["metric"; "control"; "pvalue"]%string, [[Some 1%Z; Some 2%Z; None]; [Some 3%Z; Some 5%Z; Some 4%Z]]).
Proof. reflexivity. Qed.

Print Assumptions C16_decimal_exponent_is_floor_log10.
Print Assumptions C16_exponent_text_renders_mantissa_and_exponent.
Print Assumptions C16_exponent_mantissa_is_normalised_and_correctly_rounded.
Print Assumptions C16_exponent_fields_denote.
Print Assumptions C16_fixed_point_text_is_the_first_rounding.
Print Assumptions C16_fixed_point_relative_error.
Print Assumptions C16_view_columns_are_the_union_of_keys.
Print Assumptions C16_view_columns_distinct.
Print Assumptions C16_view_rows_in_order.
Print Assumptions C16_view_loses_no_value.
Print Assumptions C16_view_absent_key_is_null.
Print Assumptions C16_decade_hypotheses_hold.
Print Assumptions C16_view_example.
