(* C05 - RatioOfMeans is the delta method: the textbook test of C04 applied to the linearised observations
   r_g + (x_i - r_g*y_i)/mean_g(y).  Statements about the model regenerated from mean.py / aggr.py. *)
From Coq Require Import Reals String List Lra.
From TT Require Import lib.PreludeR lib.Stats lib.Distr lib.DistrWitness lib.ExtR lib.Textbook genR.Aggr genR.Mean
  proofs.C14_pooling proofs.Mean_core proofs.Mean_aggr proofs.C04_textbook.
Import ListNotations.
Local Open Scope R_scope.

Section C05.
Variable fam : dist_family R.
Hypothesis HF : fam_laws fam.
Variable cfg : rom.
Hypothesis Hnc : cfg_numer_covariate cfg = None.
Hypothesis Hdc : cfg_denom_covariate cfg = None.
Hypothesis Hcl : 0 < cfg_confidence_level cfg < 1.
Variables lc lt : list row.
Hypothesis Hlc : (2 <= length lc)%nat.
Hypothesis Hlt : (2 <= length lt)%nat.
Hypothesis Hden_c : smean (ocol (cfg_denom cfg)) lc <> 0.
Hypothesis Hden_t : smean (ocol (cfg_denom cfg)) lt <> 0.
Hypothesis Hvar : 0 < svar (linY cfg lc) lc + svar (linY cfg lt) lt.

(* linY cfg l r = r_g + (x r - r_g * y r) / mean_g y  with r_g the variant's ratio of means *)
Theorem C05_linearisation_shape l r :
  linY cfg l r = smean (col (cfg_numer cfg)) l / smean (ocol (cfg_denom cfg)) l
               + (r (cfg_numer cfg) - smean (col (cfg_numer cfg)) l / smean (ocol (cfg_denom cfg)) l * ocol (cfg_denom cfg) r)
                 / smean (ocol (cfg_denom cfg)) l.
Proof. reflexivity. Qed.

Theorem C05_ratio_is_test_on_linearised :
  tb_abs_eq (rom_analyze_aggregates fam cfg (aggr_of lc) (aggr_of lt))
            (textbook fam (cfg_alternative cfg) (cfg_equal_var cfg) (cfg_use_t cfg) (cfg_confidence_level cfg)
                      (map (linY cfg lc) lc) (map (linY cfg lt) lt)).
Proof. exact (ratio_textbook_abs fam HF cfg Hnc Hdc Hcl lc lt Hlc Hlt Hden_c Hden_t Hvar). Qed.

Theorem C05_ratio_relative_interval : 0 < smean (linY cfg lc) lc * smean (linY cfg lt) lt ->
  tb_rel_eq (rom_analyze_aggregates fam cfg (aggr_of lc) (aggr_of lt))
            (textbook fam (cfg_alternative cfg) (cfg_equal_var cfg) (cfg_use_t cfg) (cfg_confidence_level cfg)
                      (map (linY cfg lc) lc) (map (linY cfg lt) lt)).
Proof. exact (ratio_textbook_rel fam HF cfg Hnc Hdc Hcl lc lt Hlc Hlt Hden_c Hden_t Hvar). Qed.

(* per variant: mean and sample variance of the linearised observations are r_g and ratio_var *)
Theorem C05_linearised_mean_var :
  smean (linY cfg lc) lc = smean (col (cfg_numer cfg)) lc / smean (ocol (cfg_denom cfg)) lc /\
  svar (linY cfg lc) lc = agg_ratio_var (aggr_of lc) (Some (cfg_numer cfg)) (cfg_denom cfg).
Proof. exact (linearised_mean_var cfg Hcl lc Hlc Hden_c). Qed.
End C05.

(* a denominator column of ones gives exactly the result without denominator (= the Mean result) *)
Theorem C05_denominator_of_ones fam cfg y lc lt :
  cfg_numer_covariate cfg = None -> cfg_denom_covariate cfg = None -> cfg_denom cfg = Some y ->
  (2 <= length lc)%nat -> (2 <= length lt)%nat -> (forall r, In r (lc ++ lt) -> r y = 1) ->
  rom_analyze_aggregates fam cfg (aggr_of lc) (aggr_of lt)
  = rom_analyze_aggregates fam
      (mk_rom (cfg_numer cfg) None None None (cfg_alternative cfg) (cfg_confidence_level cfg)
              (cfg_equal_var cfg) (cfg_use_t cfg) (cfg_alpha cfg) (cfg_ratio cfg) (cfg_power cfg))
      (aggr_of lc) (aggr_of lt).
Proof. exact (denominator_ones_lemma fam cfg y lc lt). Qed.

(* an absent denominator IS the Mean metric, and Mean(value, covariate) is RatioOfMeans(value, None, covariate, None):
   mean_cfg is generated from the super().__init__ wiring of class Mean *)
Theorem C05_mean_is_ratio_without_denominators v c alt cl ev ut alpha ratio power :
  mean_cfg v c alt cl ev ut alpha ratio power = mk_rom v None c None alt cl ev ut alpha ratio power.
Proof. reflexivity. Qed.

Example C05_nonvacuous :
  let r1 : row := fun c => if String.eqb c "x" then 1 else 2 in
  let r2 : row := fun c => if String.eqb c "x" then 3 else 5 in
  let cfg := mk_rom "x" (Some "y"%string) None None TwoSided (95 / 100) false true (5 / 100) 1 (8 / 10) in
  (2 <= length [r1; r2])%nat /\ smean (ocol (cfg_denom cfg)) [r1; r2] <> 0.
Proof. cbv zeta. split; [apply le_n|]. unfold smean, cnt, ocol, col. cbn. lra. Qed.

Print Assumptions C05_linearisation_shape.
Print Assumptions C05_ratio_is_test_on_linearised.
Print Assumptions C05_ratio_relative_interval.
Print Assumptions C05_linearised_mean_var.
Print Assumptions C05_denominator_of_ones.
Print Assumptions C05_mean_is_ratio_without_denominators.
