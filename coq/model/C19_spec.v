(* C19 specification: the documented parameter domains, written from the docstrings. Definitions only. *)
From Coq Require Import ZArith QArith String List Bool.
From TT Require Import lib.PyVal.
Import ListNotations.
Local Open Scope bool_scope.

(* ---------- the documented domains, written from the docstrings ---------- *)
Definition fzero : pyfloat := FFin 0.
Definition fone : pyfloat := FFin 1.
Definition open01 (v : pyval) : bool :=          (* a float strictly between 0 and 1 *)
  match v with VFloat f => flt fzero f && flt f fone | _ => false end.
Definition is_bool (v : pyval) : bool := match v with VBool _ => true | _ => false end.
Definition int_gt (k : Z) (v : pyval) : bool := match v with VInt z => (k <? z)%Z | _ => false end.
Definition in_domain (name : string) (v : pyval) : bool :=
  if String.eqb name "alpha" || String.eqb name "power" || String.eqb name "confidence_level" then open01 v
  else if String.eqb name "alternative" then
    match v with VStr s => String.eqb s "two-sided" || String.eqb s "greater" || String.eqb s "less" | _ => false end
  else if String.eqb name "correction" || String.eqb name "equal_var" || String.eqb name "use_t" then is_bool v
  else if String.eqb name "n_obs" then                (* None, an integer > 1, or a sequence of integers > 1 *)
    match v with VNone => true | VInt z => (1 <? z)%Z | VSeq l => forallb (int_gt 1) l | _ => false end
  else if String.eqb name "n_resamples" then          (* an integer > 0; bool counts as int (True = 1) *)
    match v with VInt z => (0 <? z)%Z | VBool b => b | _ => false end
  else if String.eqb name "ratio" then                (* a number > 0; bool counts as int *)
    match v with VInt z => (0 <? z)%Z | VBool b => b | VFloat f => flt fzero f | _ => false end
  else true.                                          (* user-defined options are unrestricted *)

