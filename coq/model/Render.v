(* Hand model of utils.format_num / get_and_format_num / DictsReprMixin.to_string / to_html over EXACT values:
   a finite float is the rational num/den it denotes; rounding is exact decimal rounding (half-even), which is what
   round() followed by format() computes for a binary64 value.  Tied to the code by exact string equality
   (tools/props/C16.py).  Definitions only. *)
From Coq Require Import ZArith QArith String Ascii List Bool.
Import ListNotations.
Local Open Scope Z_scope.

(* ---------- decimal digits ---------- *)
Definition digit_char (d : Z) : ascii := ascii_of_nat (48 + Z.to_nat d).
Fixpoint digits_fuel (fuel : nat) (n : Z) (acc : string) : string :=
  match fuel with
  | O => acc
  | S f => let acc' := String (digit_char (n mod 10)) acc in
           if n / 10 =? 0 then acc' else digits_fuel f (n / 10) acc'
  end.
Definition digits (n : Z) : string := digits_fuel (S (Z.to_nat (Z.log2 (Z.max n 1)))) n EmptyString.   (* n >= 0 *)

(* Python's len() of a str counts code points: in the UTF-8 bytes, every byte that is not a continuation byte 10xxxxxx *)
Definition is_continuation (c : ascii) : bool := let n := nat_of_ascii c in Nat.leb 128 n && Nat.ltb n 192.
Fixpoint str_len (s : string) : nat :=
  match s with EmptyString => O | String c t => if is_continuation c then str_len t else S (str_len t) end.
Fixpoint pad_zeros (k : nat) (s : string) : string := match k with O => s | S k' => pad_zeros k' (String "0" s) end.
(* thousands grouping with "_" *)
Fixpoint group_rev (s : list ascii) (i : nat) : list ascii :=      (* s: digits, least significant first *)
  match s with
  | [] => []
  | c :: t => (if (Nat.ltb 0 i) && (Nat.eqb (Nat.modulo i 3) 0) then ["_"%char; c] else [c]) ++ group_rev t (S i)
  end.
Fixpoint to_list (s : string) : list ascii := match s with EmptyString => [] | String c t => c :: to_list t end.
Fixpoint of_list (l : list ascii) : string := match l with [] => EmptyString | c :: t => String c (of_list t) end.
Definition group3 (s : string) : string := of_list (rev (group_rev (rev (to_list s)) 0)).

(* ---------- exact rounding ---------- *)
(* round-half-even of n/d (d > 0) *)
Definition round_half_even (n d : Z) : Z :=
  let q := n / d in let r := n mod d in
  match 2 * r ?= d with
  | Lt => q
  | Gt => q + 1
  | Eq => if Z.even q then q else q + 1
  end.
Definition pow10 (k : nat) : Z := 10 ^ Z.of_nat k.

(* floor(log10(n/d)) for n, d > 0, searched within +-400 *)
Fixpoint log10_up (fuel : nat) (n d : Z) (e : Z) : Z :=      (* n/d >= 10^e known; find largest e *)
  match fuel with O => e | S f => if 10 * d * 10 ^ Z.max e 0 <=? n * 10 ^ Z.max (- e) 0 then log10_up f n d (e + 1) else e end.
Fixpoint log10_down (fuel : nat) (n d : Z) (e : Z) : Z :=    (* find largest e with 10^e <= n/d, going down *)
  match fuel with O => e | S f => if d * 10 ^ Z.max e 0 <=? n * 10 ^ Z.max (- e) 0 then e else log10_down f n d (e - 1) end.
Definition floor_log10 (n d : Z) : Z :=
  if d <=? n then log10_up 400 n d 0 else log10_down 400 n d (-1).

(* fixed-point text of |n/d| rounded to p decimals, with "_" grouping of the integer part *)
Definition fixed_abs (n d : Z) (p : nat) : string :=
  let m := round_half_even (n * pow10 p) d in
  let ip := m / pow10 p in let fp := m mod pow10 p in
  let fs := digits fp in
  group3 (digits ip) ++
  (match p with O => EmptyString | _ => String "." (pad_zeros (p - str_len fs) fs) end)%string.

(* exponent format d.ddde+XX of |n/d| with p decimals *)
Definition exp_abs (n d : Z) (p : nat) : string :=
  let e0 := floor_log10 n d in
  (* mantissa = n/d / 10^e0, rounded to p decimals; may round up to 10.00 *)
  let scale_n e := n * 10 ^ Z.max (- e) 0 in let scale_d e := d * 10 ^ Z.max e 0 in
  let m0 := round_half_even (scale_n e0 * pow10 p) (scale_d e0) in
  let e := if 10 * pow10 p <=? m0 then e0 + 1 else e0 in
  let m := if 10 * pow10 p <=? m0 then round_half_even (scale_n e * pow10 p) (scale_d e) else m0 in
  let ip := m / pow10 p in let fp := m mod pow10 p in
  let fs := digits fp in
  let es := digits (Z.abs e) in
  (digits ip ++ (match p with O => EmptyString | _ => String "." (pad_zeros (p - str_len fs) fs) end)
   ++ "e" ++ (if Z.ltb e 0 then "-" else "+") ++ (if Z.ltb (Z.abs e) 10 then "0" else "") ++ es)%string.

Inductive fval := FNone | FNan | FInf (positive_sign : bool) | FNum (n : Z) (d : Z).   (* d > 0 *)

(* format_num(val, sig, pct=...) with the default fixed_point_range (0.001, 10_000_000) and default separators.
   For pct the value passed in is ALREADY multiplied by 100 (that float multiplication is done by the caller). *)
Definition format_num_model (v : fval) (sig : nat) (pct : bool) : string :=
  match v with
  | FNone | FNan => "-"%string
  | FInf true => "∞"%string
  | FInf false => ("-" ++ "∞")%string
  | FNum n d =>
      let a := Z.abs n in
      let sgn := if n <? 0 then "-"%string else EmptyString in
      let body :=
        if a =? 0 then
          (* abs(val) < 0.001 : exponent branch with typ "f" for zero *)
          fixed_abs 0 1 (Nat.max 0 (sig - 1))
        else if (a * 1000 <? d) || (10000000 * d <=? a) then
          exp_abs a d (Nat.max 0 (sig - 1))
        else
          let e := floor_log10 a d in
          let p := Z.to_nat (Z.max 0 (Z.of_nat sig - 1 - e)) in
          (* val = round(val, p); the rounded value is m / 10^p *)
          let m := round_half_even (a * pow10 p) d in
          if m =? 0 then fixed_abs 0 1 p     (* cannot happen for a/d >= 0.001 with sig >= 1; kept total *)
          else
            let e' := floor_log10 m (pow10 p) in
            let p' := Z.to_nat (Z.max 0 (Z.of_nat sig - 1 - e')) in
            fixed_abs m (pow10 p) p'
      in
      (* a negative value that rounds to zero keeps its sign in Python ("-0.00"): same here *)
      (sgn ++ body ++ (if pct then "%" else ""))%string
  end.

(* ---------- tables ---------- *)
Definition rjust (w : nat) (s : string) : string :=
  (fix pad k := match k with O => s | S k' => String " " (pad k') end) (Nat.sub w (str_len s)).
Definition col_width (header : string) (cells : list string) : nat :=
  fold_left (fun w c => Nat.max w (str_len c)) cells (str_len header).
Fixpoint join (sep : string) (l : list string) : string :=
  match l with [] => EmptyString | [x] => x | x :: t => (x ++ sep ++ join sep t)%string end.
Definition transpose_col (rows : list (list string)) (j : nat) : list string := map (fun r => nth j r EmptyString) rows.
(* to_string: header, then one line per row; every cell right-justified to its column width *)
Definition to_string_model (keys : list string) (rows : list (list string)) : string :=
  let widths := map (fun jk => col_width (snd jk) (transpose_col rows (fst jk))) (combine (seq 0 (length keys)) keys) in
  let line cells := join " " (map (fun wc => rjust (fst wc) (snd wc)) (combine widths cells)) in
  join (String (ascii_of_nat 10) EmptyString) (line keys :: map line rows).

(* HTML text escaping of xml.etree (method="html"): & < > *)
Fixpoint escape_html (s : string) : string :=
  match s with
  | EmptyString => EmptyString
  | String c t =>
      ((if Ascii.eqb c "&" then "&amp;" else if Ascii.eqb c "<" then "&lt;" else if Ascii.eqb c ">" then "&gt;"
        else String c EmptyString) ++ escape_html t)%string
  end.
Definition to_html_model (keys : list string) (rows : list (list string)) : string :=
  let cell tag s := ("<" ++ tag ++ ">" ++ escape_html s ++ "</" ++ tag ++ ">")%string in
  ("<table class=""dataframe"" style=""text-align: right;""><thead><tr>" ++ join "" (map (cell "th") keys)
   ++ "</tr></thead><tbody>" ++ join "" (map (fun r => "<tr>" ++ join "" (map (cell "td") r) ++ "</tr>") rows)
   ++ "</tbody></table>")%string.
