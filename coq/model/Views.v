(* Hand model of the dataframe views of DictsReprMixin (utils.py: to_arrow, and what pandas.DataFrame.from_records /
   polars.from_dicts do with to_dicts()): the columns are the union of the keys of all rows in order of first appearance,
   and every row is read through that column list (a key absent from a row gives a null cell).  Tied to the code by
   comparing column lists and cells on random result objects (tools/props/C16.py).  Definitions only. *)
From Coq Require Import String List Bool.
Import ListNotations.

Definition mem (k : string) (l : list string) : bool := existsb (String.eqb k) l.
(* dict.fromkeys(...): first occurrence of each key, in order *)
Fixpoint dedup (seen l : list string) : list string :=
  match l with
  | [] => []
  | k :: t => if mem k seen then dedup seen t else k :: dedup (k :: seen) t
  end.
Definition row_keys {V} (row : list (string * V)) : list string := map fst row.
Definition union_keys {V} (rows : list (list (string * V))) : list string := dedup [] (flat_map row_keys rows).
(* data.get(key) *)
Fixpoint lookup {V} (k : string) (row : list (string * V)) : option V :=
  match row with
  | [] => None
  | (k', v) :: t => if String.eqb k k' then Some v else lookup k t
  end.
Definition view_row {V} (keys : list string) (row : list (string * V)) : list (option V) := map (fun k => lookup k row) keys.
Definition view {V} (rows : list (list (string * V))) : list string * list (list (option V)) :=
  (union_keys rows, map (view_row (union_keys rows)) rows).
