(* Hand model of the three query builders of aggr.py as functions from the requested statistics to a plan.
   Tied to the code by plan capture (tools/plans.py): the plan reified from the REAL builder must equal
   plan_of_spec (plan_eqb, vm_compute), for every sampled request.  Definitions only. *)
From Coq Require Import ZArith String List Bool.
From TT Require Import lib.Plan.
Import ListNotations.
Local Open Scope string_scope.
Local Open Scope list_scope.

Inductive builder := Narwhals | IbisNative | IbisFallback.

Definition a_count : string := "_count".
Definition a_mean (c : string) : string := ("_mean__" ++ c)%string.
Definition a_var (c : string) : string := ("_var__" ++ c)%string.
Definition a_cov (p : string * string) : string := ("_cov__" ++ fst p ++ "__" ++ snd p)%string.
Definition a_demean (c : string) : string := ("_demean__" ++ c)%string.
Definition a_gmean (c : string) : string := ("_group_mean__" ++ c)%string.

Record request := mk_request {
  r_has_count : bool; r_mean : list string; r_var : list string; r_cov : list (string * string);
  r_covar : list string (* the union of var columns and of both columns of every cov pair *) }.

Definition demeaned (c : string) : expr := Col (a_demean c).

(* ---- _read_aggr_narwhals ---- *)
Definition nw_plan (q : request) (g : option string) : plan :=
  let has_covar := negb (Nat.eqb (length (r_covar q)) 0) in
  (if has_covar then
     (* grouped: the group means are joined back as columns first (recorded as a window step, tools/plans.py Frame.join) *)
     (match g with
      | Some _ => [ WithColumns (map (fun c => (a_gmean c, MeanOver (Col c) g)) (r_covar q));
                    WithColumns (map (fun c => (a_demean c, Sub (Col c) (Col (a_gmean c)))) (r_covar q)) ]
      | None => [ WithColumns (map (fun c => (a_demean c, Sub (Col c) (MeanOver (Col c) g))) (r_covar q)) ]
      end) ++
     [ WithColumns (map (fun c => (a_var c, Mul (demeaned c) (demeaned c))) (r_var q)
                    ++ map (fun p => (a_cov p, Mul (demeaned (fst p)) (demeaned (snd p)))) (r_cov q)) ]
   else [])
  ++ [ Aggregate g
         ((if r_has_count q || has_covar then [(a_count, AggLen)] else [])
          ++ map (fun c => (a_mean c, AggMean (Col c))) (r_mean q)
          ++ map (fun c => (a_var c, AggMean (Col (a_var c)))) (r_var q)
          ++ map (fun p => (a_cov p, AggMean (Col (a_cov p)))) (r_cov q)) ]
  ++ (if has_covar then
        let unbias e := Div e (Sub (Lit 1) (Div (Lit 1) (Col a_count))) in
        [ WithColumns (map (fun c => (a_var c, unbias (Col (a_var c)))) (r_var q)
                       ++ map (fun p => (a_cov p, unbias (Col (a_cov p)))) (r_cov q)) ]
      else []).

(* ---- _read_aggr_ibis, backend with Variance and Covariance ---- *)
Definition ibis_native_plan (q : request) (g : option string) : plan :=
  [ Aggregate g
      ((if r_has_count q then [(a_count, AggLen)] else [])
       ++ map (fun c => (a_mean c, AggMean (Cast (Col c)))) (r_mean q)
       ++ map (fun c => (a_var c, AggVar true (Cast (Col c)))) (r_var q)
       ++ map (fun p => (a_cov p, AggCov true (Cast (Col (fst p))) (Cast (Col (snd p))))) (r_cov q)) ].

(* ---- _read_aggr_ibis, demeaning fallback ---- *)
Definition ibis_fallback_plan (q : request) (g : option string) : plan :=
  let has_covar := negb (Nat.eqb (length (r_covar q)) 0) in
  let ss a b := Div (AggSum (Mul (demeaned a) (demeaned b))) (Sub AggLen (Lit 1)) in
  (if has_covar then
     [ WithColumns (map (fun c => (a_demean c, Sub (Col c) (MeanOver (Cast (Col c)) g))) (r_covar q)) ]
   else [])
  ++ [ Aggregate g
         ((if r_has_count q then [(a_count, AggLen)] else [])
          ++ map (fun c => (a_mean c, AggMean (Cast (Col c)))) (r_mean q)
          ++ map (fun c => (a_var c, ss c c)) (r_var q)
          ++ map (fun p => (a_cov p, ss (fst p) (snd p))) (r_cov q)) ].

Definition plan_of_spec (b : builder) (q : request) (g : option string) : plan :=
  match b with Narwhals => nw_plan q g | IbisNative => ibis_native_plan q g | IbisFallback => ibis_fallback_plan q g end.
