(* Hand model of tea_tasting/config.py (global configuration state machine) and of the way metric constructors
   resolve their parameters.  Tied to the code by the history differential in tools/props/C13.py.
   Values are taken from a pool (list of pyval) and addressed by index, so that the harness can print states.
   Validation uses auto_check REGENERATED from utils.py (genP/Utils.v). Definitions only. *)
From Coq Require Import ZArith String List Bool.
From TT Require Import lib.PyVal genP.Utils.
Import ListNotations.
Local Open Scope bool_scope.

Section Config.
Variable pool : list pyval.
Definition val (i : nat) : pyval := nth i pool VNone.

(* the dict _global_config: insertion-ordered association list name -> pool index *)
Definition config := list (string * nat).
Fixpoint lookup (s : config) (k : string) : option nat :=
  match s with [] => None | (k', v) :: t => if String.eqb k k' then Some v else lookup t k end.
Fixpoint set1 (s : config) (k : string) (v : nat) : config :=
  match s with
  | [] => [(k, v)]
  | (k', v') :: t => if String.eqb k k' then (k, v) :: t else (k', v') :: set1 t k v
  end.
Definition update (s : config) (kvs : list (string * nat)) : config :=
  fold_left (fun acc kv => set1 acc (fst kv) (snd kv)) kvs s.

(* a keyword argument: None means "not given" *)
Definition kwargs := list (string * option nat).
Fixpoint given (kvs : kwargs) : list (string * nat) :=
  match kvs with
  | [] => []
  | (k, Some v) :: t => (k, v) :: given t
  | (_, None) :: t => given t
  end.
(* first failing auto_check, in argument order *)
Fixpoint validate (kvs : list (string * nat)) : result unit :=
  match kvs with
  | [] => Ok tt
  | (k, v) :: t => match auto_check (val v) k with Ok _ => validate t | Err e => Err e end
  end.

(* set_config with keyword arguments kvs: validate everything, then write (after the fix: commit 1efd211) *)
Definition set_config (kvs : kwargs) (s : config) : config * result unit :=
  match validate (given kvs) with
  | Ok _ => (update s (given kvs), Ok tt)
  | Err e => (s, Err e)
  end.

(* metric constructor: every parameter is the explicit argument (validated) or the value in force now *)
Definition metric_record := list (string * option nat).
Fixpoint resolve (params : kwargs) (s : config) : result metric_record :=
  match params with
  | [] => Ok []
  | (k, Some v) :: t =>
      match auto_check (val v) k with
      | Ok _ => bind (resolve t s) (fun r => Ok ((k, Some v) :: r))
      | Err e => Err e
      end
  | (k, None) :: t => bind (resolve t s) (fun r => Ok ((k, lookup s k) :: r))
  end.

Inductive op :=
  | SetConfig (kvs : kwargs)
  | GetConfigMutate (k : string) (v : nat)          (* cfg = get_config(); cfg[k] = v *)
  | Construct (params : kwargs)
  | With (kvs : kwargs) (body : list op) (raise_in_body : bool).

Inductive outcome := Normal | Raised (e : pyexc).
Record world := mk_world { w_cfg : config; w_metrics : list metric_record }.

(* sequential execution; an exception aborts the enclosing block; `with` restores in its finally clause *)
Fixpoint exec_op (o : op) (w : world) : world * outcome :=
  match o with
  | SetConfig kvs =>
      match set_config kvs (w_cfg w) with
      | (s', Ok _) => (mk_world s' (w_metrics w), Normal)
      | (s', Err e) => (mk_world s' (w_metrics w), Raised e)
      end
  | GetConfigMutate _ _ => (w, Normal)                 (* get_config() returns a copy *)
  | Construct params =>
      match resolve params (w_cfg w) with
      | Ok r => (mk_world (w_cfg w) (w_metrics w ++ [r]), Normal)
      | Err e => (w, Raised e)
      end
  | With kvs body rb =>
      let old := w_cfg w in
      match set_config kvs old with
      | (s1, Err e) => (mk_world s1 (w_metrics w), Raised e)        (* entering failed *)
      | (s1, Ok _) =>
          let fix run (l : list op) (w : world) : world * outcome :=
            match l with
            | [] => (w, Normal)
            | o :: t => match exec_op o w with (w', Normal) => run t w' | (w', Raised e) => (w', Raised e) end
            end in
          let '(w2, out) := run body (mk_world s1 (w_metrics w)) in
          let out' := match out with Normal => if rb then Raised RuntimeError else Normal | r => r end in
          (mk_world old (w_metrics w2), out')                         (* finally: restore *)
      end
  end.
Fixpoint exec (l : list op) (w : world) : world * outcome :=
  match l with
  | [] => (w, Normal)
  | o :: t => match exec_op o w with (w', Normal) => exec t w' | (w', Raised e) => (w', Raised e) end
  end.

(* every stored standard option passes its own check *)
Definition cfg_ok (s : config) : Prop :=
  forall k v, lookup s k = Some v -> is_ok (auto_check (val v) k) = true.
End Config.
