(* Hand model of the orchestration in experiment.py / metrics/base.py: which backend fetches Experiment.analyze and
   Experiment.solve_power perform (C03) and how metrics are dispatched (C12).  Tied to the code by the trace
   differential of tools/props/C03.py / C12.py (fetch counters on lazy backends).  Definitions only. *)
From Coq Require Import ZArith String List Bool.
From TT Require Import genP.ExperimentPairs.
Import ListNotations.
Local Open Scope bool_scope.

(* AggrCols *)
Record aggr_spec := mk_spec {
  has_count : bool; mean_cols : list string; var_cols : list string; cov_cols : list (string * string) }.
Definition spec_empty : aggr_spec := mk_spec false [] [] [].
Definition pair_eq_dec : forall a b : string * string, {a = b} + {a <> b}.
Proof. decide equality; apply string_dec. Defined.
Definition sort_pair (p : string * string) : string * string :=
  if String.ltb (snd p) (fst p) then (snd p, fst p) else p.
(* AggrCols.__or__ : set unions (Python sets: element order irrelevant, duplicates removed) *)
Definition spec_or (a b : aggr_spec) : aggr_spec :=
  mk_spec (has_count a || has_count b)
          (nodup string_dec (mean_cols a ++ mean_cols b))
          (nodup string_dec (var_cols a ++ var_cols b))
          (nodup pair_eq_dec (map sort_pair (nodup pair_eq_dec (cov_cols a ++ cov_cols b)))).
(* AggrCols.__len__ *)
Definition spec_len (s : aggr_spec) : nat :=
  (if has_count s then 1 else 0) + length (mean_cols s) + length (var_cols s) + length (cov_cols s).

Inductive metric :=
  | MAggr (spec : aggr_spec)        (* MetricBaseAggregated with aggr_cols = spec *)
  | MGran (cols : list string)      (* MetricBaseGranular with cols *)
  | MPlain.                         (* any other MetricBase: reads the data itself *)

Inductive fetch :=
  | FAggr (spec : aggr_spec) (group : option string)   (* one aggregate query: one row per group *)
  | FGran (cols : list string) (variant : string)      (* one row-level fetch of cols + variant *)
  | FVariants (variant : string)                       (* distinct variants *)
  | FPlain (metric_index : nat) (pair : Z * Z).        (* metric.analyze(data, ...) called on the raw data *)

Definition merged_spec (ms : list metric) : aggr_spec :=
  fold_left (fun acc m => match m with MAggr s => spec_or acc s | _ => acc end) ms spec_empty.
Definition merged_cols (ms : list metric) : list string :=
  nodup string_dec (flat_map (fun m => match m with MGran c => c | _ => [] end) ms).

(* Experiment._read_data *)
Definition has_aggr (ms : list metric) : bool := Nat.ltb 0 (spec_len (merged_spec ms)).
Definition has_gran (ms : list metric) : bool := Nat.ltb 0 (length (merged_cols ms)).
Definition read_data (ms : list metric) (variant : string) : list fetch :=
  (if has_aggr ms then [FAggr (merged_spec ms) (Some variant)] else [])
  ++ (if has_gran ms then [FGran (merged_cols ms) variant] else []).

(* Experiment._analyze_metric: fetches caused by one metric for one pair *)
Definition metric_fetches (ms : list metric) (i : nat) (m : metric) (pair : Z * Z) : list fetch :=
  match m with
  | MAggr _ => if has_aggr ms then [] else [FPlain i pair]
  | MGran _ => if has_gran ms then [] else [FPlain i pair]
  | MPlain => [FPlain i pair]
  end.
Fixpoint metrics_fetches (ms : list metric) (i : nat) (l : list metric) (pair : Z * Z) : list fetch :=
  match l with [] => [] | m :: t => metric_fetches ms i m pair ++ metrics_fetches ms (S i) t pair end.

(* Experiment.analyze: None = ValueError (more than one pair without all_variants) *)
Definition analyze_trace (ms : list metric) (variant : string) (control : option Z) (all_variants : bool)
    (variants : list Z) : option (list fetch) :=
  let reads := read_data ms variant
               ++ (if has_aggr ms || has_gran ms then [] else [FVariants variant]) in
  let pairs := variant_pairs control variants in
  if guard_raises pairs all_variants then None
  else Some (reads ++ flat_map (metrics_fetches ms 0 ms) (if all_variants then pairs else firstn 1 pairs)).

(* Experiment.solve_power dispatches on the POWER classes of metrics/base.py, which are independent of the analysis
   classes above: PowerBaseAggregated (declares aggr_cols, solved from the shared aggregates), any other PowerBase
   (reads the data itself), or no power analysis at all (the metric is skipped). *)
Inductive power_kind :=
  | PwAggr (spec : aggr_spec)
  | PwPlain
  | PwNone.
Definition power_metric (p : power_kind) : metric := match p with PwAggr s => MAggr s | _ => MPlain end.
Definition power_merged_spec (ps : list power_kind) : aggr_spec := merged_spec (map power_metric ps).
Definition has_power_aggr (ps : list power_kind) : bool := Nat.ltb 0 (spec_len (power_merged_spec ps)).
(* calls metric.solve_power(data) of the non-aggregated power metrics, in metric order *)
Fixpoint power_calls (i : nat) (ps : list power_kind) : list fetch :=
  match ps with
  | [] => []
  | PwPlain :: t => FPlain i (0, 0)%Z :: power_calls (S i) t
  | _ :: t => power_calls (S i) t
  end.
Definition solve_power_trace (ps : list power_kind) : list fetch :=
  (if has_power_aggr ps then [FAggr (power_merged_spec ps) None] else []) ++ power_calls 0 ps.
(* indices of the metrics that get an entry in the power result, in order *)
Fixpoint power_entries (i : nat) (ps : list power_kind) : list nat :=
  match ps with
  | [] => []
  | PwNone :: t => power_entries (S i) t
  | _ :: t => i :: power_entries (S i) t
  end.
