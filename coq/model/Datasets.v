(* Hand model of the table assembly of datasets._make_data, as a function of the values the numpy Generator returned.
   The random draws are inputs (recorded from the real generator by tools/props/C20.py, which replays them here and
   compares the resulting tables); what the model fixes is how the columns are computed from the draws:
     users data    : one row per user; sessions = 1 + Poisson draw; orders = Binomial draw; revenue = orders * rpo,
                     rounded to 2 decimals; covariates from their own draws;
     sessions data : user i repeated (1 + Poisson draw) times; sessions = 1 in every row; per-row order / revenue
                     draws; covariates averaged within the user (_avg_by_groups).
   Floats are the exact rationals they denote.  Definitions only. *)
From Coq Require Import ZArith QArith List Bool.
From TT Require Import model.Render.
Import ListNotations.
Local Open Scope Z_scope.

(* numpy .round(2) on an exact value: nearest multiple of 1/100, ties to even *)
Definition round2 (q : Q) : Q := Qmake (round_half_even (Qnum q * 100) (Zpos (Qden q))) 100.

Record drow := {
  r_user : Z; r_variant : Z; r_sessions : Z; r_orders : Z; r_revenue : Q;
  r_sessions_cov : Q; r_orders_cov : Q; r_revenue_cov : Q }.

(* ---------- users data ---------- *)
Record udraw := {
  u_variant : Z;        (* rng.binomial(1, p) *)
  u_pois : Z;           (* rng.poisson(lam) *)
  u_orders : Z;         (* rng.binomial(sessions, p_user) *)
  u_rpo : Q;            (* rng.lognormal *)
  u_cs : Z;             (* covariates: rng.poisson *)
  u_co : Z;             (* rng.binomial(sessions_covariate, p) *)
  u_crpo : Q }.         (* rng.lognormal *)

Definition users_row (i : Z) (d : udraw) : drow :=
  {| r_user := i; r_variant := u_variant d; r_sessions := 1 + u_pois d; r_orders := u_orders d;
     r_revenue := round2 (inject_Z (u_orders d) * u_rpo d);
     r_sessions_cov := inject_Z (u_cs d); r_orders_cov := inject_Z (u_co d);
     r_revenue_cov := round2 (inject_Z (u_co d) * u_crpo d) |}.

Fixpoint users_from (i : Z) (ds : list udraw) : list drow :=
  match ds with [] => [] | d :: t => users_row i d :: users_from (i + 1) t end.
Definition users_data (ds : list udraw) : list drow := users_from 0 ds.

(* what the Generator guarantees about its return values *)
Definition udraw_ok (d : udraw) : Prop :=
  (u_variant d = 0 \/ u_variant d = 1) /\ 0 <= u_pois d /\ 0 <= u_orders d <= 1 + u_pois d /\ (0 < u_rpo d)%Q /\
  0 <= u_cs d /\ 0 <= u_co d <= u_cs d /\ (0 < u_crpo d)%Q.

(* ---------- sessions data ---------- *)
Record sdraw := {
  s_orders : Z;         (* rng.binomial(1, p_user) *)
  s_rpo : Q;
  s_cs : Z; s_co : Z; s_crpo : Q }.
Record xuser := {
  x_variant : Z;
  x_pois : Z;
  x_sess : list sdraw }.        (* one per session: length = 1 + x_pois *)

Definition qsum (l : list Q) : Q := fold_right Qplus 0%Q l.
Definition zsum (l : list Z) : Z := fold_right Z.add 0 l.
(* _avg_by_groups: the mean of the group's values, for a non-empty group *)
Definition qavg (l : list Q) : Q := (qsum l / inject_Z (Z.of_nat (length l)))%Q.

Definition sessions_rows (i : Z) (u : xuser) : list drow :=
  let ss := x_sess u in
  let cs := qavg (map (fun s => inject_Z (s_cs s)) ss) in
  let co := qavg (map (fun s => inject_Z (s_co s)) ss) in
  let cr := round2 (qavg (map (fun s => inject_Z (s_co s) * s_crpo s)%Q ss)) in
  map (fun s => {| r_user := i; r_variant := x_variant u; r_sessions := 1; r_orders := s_orders s;
                   r_revenue := round2 (inject_Z (s_orders s) * s_rpo s);
                   r_sessions_cov := cs; r_orders_cov := co; r_revenue_cov := cr |}) ss.

Fixpoint sessions_from (i : Z) (us : list xuser) : list drow :=
  match us with [] => [] | u :: t => sessions_rows i u ++ sessions_from (i + 1) t end.
Definition sessions_data (us : list xuser) : list drow := sessions_from 0 us.

Definition sdraw_ok (s : sdraw) : Prop :=
  0 <= s_orders s <= 1 /\ (0 < s_rpo s)%Q /\ 0 <= s_cs s /\ 0 <= s_co s <= s_cs s /\ (0 < s_crpo s)%Q.
Definition xuser_ok (u : xuser) : Prop :=
  (x_variant u = 0 \/ x_variant u = 1) /\ 0 <= x_pois u /\ Z.of_nat (length (x_sess u)) = 1 + x_pois u /\
  Forall sdraw_ok (x_sess u).

(* the draws users data and sessions data share for the same seed: variant and Poisson session count *)
Definition shared_u (d : udraw) : Z * Z := (u_variant d, u_pois d).
Definition shared_x (u : xuser) : Z * Z := (x_variant u, x_pois u).

(* per-user summary of a table: (user, variant, number of rows) for each maximal run of equal user ids *)
Fixpoint runs (l : list drow) : list (Z * Z * Z) :=
  match l with
  | [] => []
  | r :: t => match runs t with
              | (u, v, n) :: rest => if Z.eqb u (r_user r) then (u, v, n + 1) :: rest
                                     else (r_user r, r_variant r, 1) :: (u, v, n) :: rest
              | [] => [(r_user r, r_variant r, 1)]
              end
  end.
