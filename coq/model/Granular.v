(* Hand model of metrics/base.read_granular: select the declared columns and the variant column, split by the distinct
   values of the variant, keep each variant's rows (in table order) for the declared columns only.
   Tied to the code by the exact row differential of tools/props/C15.py on five backends.  Definitions only. *)
From Coq Require Import ZArith String List Bool.
Import ListNotations.
Local Open Scope bool_scope.

Definition grow := string -> Z.                 (* a row: column name -> value *)
Definition gtable := list (Z * grow).          (* (variant id, row) *)

(* table.select(cols): only the declared columns remain visible *)
Definition project (cols : list string) (r : grow) : grow :=
  fun c => if existsb (String.eqb c) cols then r c else 0%Z.

(* variant_col.unique(): distinct values in order of first appearance *)
Fixpoint distinct (l : list Z) : list Z :=
  match l with [] => [] | x :: t => x :: filter (fun y => negb (Z.eqb y x)) (distinct t) end.

Definition rows_of_variant (v : Z) (tbl : gtable) : list grow :=
  map snd (filter (fun p => Z.eqb (fst p) v) tbl).

Definition read_granular (cols : list string) (tbl : gtable) : list (Z * list grow) :=
  map (fun v => (v, map (project cols) (rows_of_variant v tbl))) (distinct (map fst tbl)).
